//! C12 — ping-pong topology follows the specified state machine and survives restarts.
//!
//! Engine: stateright explicit-state model checking. The model's transition function calls the real
//! `leader_initialized / helper_initialized / leader_continued / helper_continued`,
//! `PingPongContinuation::{encode, get_decoded_with_param, evaluate}` and the message codecs.
//! Everything a party holds is stored ONLY as its wire encoding, so every transition is a reload
//! from persistent form (a crash/restart at every point). The environment delivers the correct
//! pending message or, within a fault budget, an earlier message of either direction, the pending
//! payload under another variant tag, or a corrupted/truncated/extended/empty message.
use prio::codec::{CodecError, Decode, Encode, ParameterizedDecode};
use prio::field::Field64;
use prio::flp::gadgets::{Mul, ParallelSum};
use prio::flp::types::SumVec;
use prio::idpf::IdpfInput;
use prio::topology::ping_pong::{PingPongContinuation, PingPongMessage, PingPongState, PingPongTopology};
use prio::vdaf::poplar1::{Poplar1, Poplar1AggregationParam};
use prio::vdaf::prio3::Prio3;
use prio::vdaf::test_utils::TestVectorClient;
use prio::vdaf::xof::XofTurboShake128;
use prio::vdaf::{self, Aggregatable, Aggregator, VdafError, VerifyTransition};
use pvh::engine::tape::Tape;
use pvh::engine::{catch, fnv, hex, Level, Run};
use serde_json::json;
use stateright::{Checker, Model, Property};
use std::io::Cursor;
use std::sync::Arc;

// ---------------------------------------------------------------------------------------------
// An order- and round-sensitive instrumented VDAF: every protocol slip is observable.
#[derive(Clone, Debug)]
struct Strict {
    rounds: u8,
}
macro_rules! bytes_codec {
    ($t:ident { $($f:ident),* }) => {
        impl Encode for $t {
            fn encode(&self, b: &mut Vec<u8>) -> Result<(), CodecError> { $(b.push(self.$f);)* Ok(()) }
            fn encoded_len(&self) -> Option<usize> { Some([$(stringify!($f)),*].len()) }
        }
        impl Decode for $t {
            fn decode(c: &mut Cursor<&[u8]>) -> Result<Self, CodecError> { Ok($t { $($f: u8::decode(c)?),* }) }
        }
    };
}
#[derive(Clone, Debug, PartialEq, Eq)]
struct SParam {
    p: u8,
}
bytes_codec!(SParam { p });
#[derive(Clone, Debug, PartialEq, Eq)]
struct SInput {
    agg_id: u8,
    value: u8,
}
bytes_codec!(SInput { agg_id, value });
#[derive(Clone, Debug, PartialEq, Eq)]
struct SState {
    agg_id: u8,
    round: u8,
    value: u8,
}
bytes_codec!(SState { agg_id, round, value });
#[derive(Clone, Debug, PartialEq, Eq)]
struct SShare {
    agg_id: u8,
    round: u8,
    token: u8,
}
bytes_codec!(SShare { agg_id, round, token });
#[derive(Clone, Debug, PartialEq, Eq)]
struct SMsg {
    round: u8,
    token: u8,
}
bytes_codec!(SMsg { round, token });
#[derive(Clone, Debug, PartialEq, Eq)]
struct SOut {
    agg_id: u8,
    value: u8,
}
bytes_codec!(SOut { agg_id, value });
#[derive(Clone, Debug, PartialEq, Eq)]
struct SAgg {
    lo: u8,
}
bytes_codec!(SAgg { lo });
impl From<SOut> for SAgg {
    fn from(o: SOut) -> Self {
        SAgg { lo: o.value }
    }
}
impl Aggregatable for SAgg {
    type OutputShare = SOut;
    fn merge(&mut self, o: &Self) -> Result<(), VdafError> {
        self.lo = self.lo.wrapping_add(o.lo);
        Ok(())
    }
    fn accumulate(&mut self, o: &SOut) -> Result<(), VdafError> {
        self.lo = self.lo.wrapping_add(o.value);
        Ok(())
    }
}
fn share_token(agg_id: u8, round: u8) -> u8 {
    agg_id.wrapping_mul(31).wrapping_add(round.wrapping_mul(7)).wrapping_add(3)
}
fn msg_token(round: u8) -> u8 {
    share_token(0, round).wrapping_mul(2).wrapping_add(share_token(1, round))
}
impl vdaf::Vdaf for Strict {
    type Measurement = u8;
    type AggregateResult = u64;
    type AggregationParam = SParam;
    type PublicShare = ();
    type InputShare = SInput;
    type OutputShare = SOut;
    type AggregateShare = SAgg;
    fn algorithm_id(&self) -> u32 {
        0xFFFF_0C12
    }
    fn num_aggregators(&self) -> usize {
        2
    }
}
impl Aggregator<32, 16> for Strict {
    type VerifyState = SState;
    type VerifierShare = SShare;
    type VerifierMessage = SMsg;
    fn verify_init(&self, _k: &[u8; 32], _ctx: &[u8], agg_id: usize, _p: &SParam, _n: &[u8; 16], _ps: &(), is: &SInput) -> Result<(SState, SShare), VdafError> {
        if is.agg_id as usize != agg_id || agg_id > 1 {
            return Err(VdafError::Uncategorized("share/role mismatch".into()));
        }
        Ok((SState { agg_id: is.agg_id, round: 0, value: is.value }, SShare { agg_id: is.agg_id, round: 0, token: share_token(is.agg_id, 0) }))
    }
    fn verifier_shares_to_message<M: IntoIterator<Item = SShare>>(&self, _ctx: &[u8], _p: &SParam, inputs: M) -> Result<SMsg, VdafError> {
        let v: Vec<SShare> = inputs.into_iter().collect();
        if v.len() != 2 {
            return Err(VdafError::Uncategorized("share count".into()));
        }
        if v[0].agg_id != 0 || v[1].agg_id != 1 {
            return Err(VdafError::Uncategorized("verifier shares not in aggregator order".into()));
        }
        if v[0].round != v[1].round || v[0].token != share_token(0, v[0].round) || v[1].token != share_token(1, v[1].round) {
            return Err(VdafError::Uncategorized("verifier share round/token mismatch".into()));
        }
        Ok(SMsg { round: v[0].round, token: msg_token(v[0].round) })
    }
    fn verify_next(&self, _ctx: &[u8], st: SState, m: SMsg) -> Result<VerifyTransition<Self, 32, 16>, VdafError> {
        if m.round != st.round || m.token != msg_token(st.round) {
            return Err(VdafError::Uncategorized("unexpected verifier message".into()));
        }
        if st.round + 1 == self.rounds {
            Ok(VerifyTransition::Finish(SOut { agg_id: st.agg_id, value: st.value }))
        } else {
            Ok(VerifyTransition::Continue(SState { round: st.round + 1, ..st.clone() }, SShare { agg_id: st.agg_id, round: st.round + 1, token: share_token(st.agg_id, st.round + 1) }))
        }
    }
    fn aggregate_init(&self, _p: &SParam) -> SAgg {
        SAgg { lo: 0 }
    }
    fn is_agg_param_valid(_c: &SParam, _p: &[SParam]) -> bool {
        true
    }
}

// ---------------------------------------------------------------------------------------------
struct Subject<A: Aggregator<S, 16>, const S: usize> {
    name: String,
    vdaf: A,
    vk: [u8; S],
    ctx: Vec<u8>,
    param: A::AggregationParam,
    nonce: [u8; 16],
    ps: A::PublicShare,
    shares: Vec<A::InputShare>,
    rounds: usize,
    /// messages carry enough information that replays / wrong rounds are distinguishable
    strict: bool,
    /// every payload byte is checked at delivery time (instrumented VDAF); real VDAFs detect an
    /// altered-but-decodable payload only in a later step
    strict_content: bool,
    budget: u8,
    corrupt_all_bytes: bool,
    not_judged: std::sync::atomic::AtomicU64,
    reevaluations: std::sync::atomic::AtomicU64,
}

#[derive(Clone, Debug, Hash, PartialEq, Eq)]
enum Party {
    Start,
    Waiting(Vec<u8>),
    HasCont(Vec<u8>),
    Finished(Vec<u8>),
}

#[derive(Clone, Debug, Hash, PartialEq, Eq)]
struct St {
    parties: [Party; 2],
    /// message in flight to party i
    pending: [Option<Vec<u8>>; 2],
    /// every message ever sent: (recipient, bytes)
    log: Vec<(u8, Vec<u8>)>,
    faults: u8,
    steps: u8,
    /// party processed an altered-but-decodable payload (or a message derived from one): it must
    /// never release an output share (the VDAF detects the alteration in a later step)
    tainted: [bool; 2],
    /// every continuation ever persisted: (party, encoding, party state it evaluated to, outbound message)
    conts: Vec<(u8, Vec<u8>, Party, Option<Vec<u8>>)>,
    violation: Option<String>,
}

#[derive(Clone, Debug, PartialEq, Eq)]
enum Src {
    Pending,
    Log(usize),
    Retype(u8),
    Flip(usize),
    Truncate,
    Extend,
    Empty,
    /// the outer message stays well-formed; one opaque inner field (0 = first, 1 = the verifier
    /// share of a Continue message) is altered in length: 0 = one byte appended, 1 = last byte
    /// dropped, 2 = emptied, 3 = two bytes appended, 4 = doubled. Every VDAF used here has
    /// fixed-length share/message encodings, so each of these makes the field undecodable.
    Inner(u8, u8),
}

#[derive(Clone, Debug, PartialEq, Eq)]
enum Act {
    LeaderInit,
    Deliver(u8, Src),
    Evaluate(u8),
    /// reload and evaluate again a continuation persisted earlier, at any later point of the exchange
    ReEvaluate(usize),
}

struct Pp<A: Aggregator<S, 16>, const S: usize>(Arc<Subject<A, S>>);

fn retype(m: &PingPongMessage, tag: u8) -> Option<PingPongMessage> {
    let (a, b): (Vec<u8>, Vec<u8>) = match m {
        PingPongMessage::Initialize { verifier_share } => (verifier_share.clone(), verifier_share.clone()),
        PingPongMessage::Continue { verifier_message, verifier_share } => (verifier_message.clone(), verifier_share.clone()),
        PingPongMessage::Finish { verifier_message } => (verifier_message.clone(), verifier_message.clone()),
    };
    let cur = match m {
        PingPongMessage::Initialize { .. } => 0,
        PingPongMessage::Continue { .. } => 1,
        PingPongMessage::Finish { .. } => 2,
    };
    if cur == tag {
        return None;
    }
    Some(match tag {
        0 => PingPongMessage::Initialize { verifier_share: b },
        1 => PingPongMessage::Continue { verifier_message: a, verifier_share: b },
        _ => PingPongMessage::Finish { verifier_message: a },
    })
}

impl<A, const S: usize> Pp<A, S>
where
    A: Aggregator<S, 16> + Send + Sync + 'static,
    A::VerifyState: Encode + for<'a> ParameterizedDecode<(&'a A, usize)>,
    A::OutputShare: PartialEq,
{
    fn message_bytes(&self, st: &St, to: u8, src: &Src) -> Option<Vec<u8>> {
        let pend = st.pending[to as usize].as_ref();
        match src {
            Src::Pending => pend.cloned(),
            Src::Log(i) => {
                let (_, b) = st.log.get(*i)?;
                if Some(b) == pend {
                    None // identical to the correct pending message: not a fault
                } else {
                    Some(b.clone())
                }
            }
            Src::Retype(tag) => {
                let m = PingPongMessage::get_decoded(pend?).ok()?;
                retype(&m, *tag).map(|m| m.get_encoded().unwrap())
            }
            Src::Flip(pos) => {
                let mut b = pend?.clone();
                if *pos >= b.len() {
                    return None;
                }
                b[*pos] ^= if *pos == 0 { 0x03 } else { 0x01 };
                Some(b)
            }
            Src::Truncate => {
                let mut b = pend?.clone();
                b.pop()?;
                Some(b)
            }
            Src::Extend => {
                let mut b = pend?.clone();
                b.push(0);
                Some(b)
            }
            Src::Empty => {
                pend?;
                Some(vec![])
            }
            Src::Inner(field, how) => {
                let pend = pend?;
                let mut m = PingPongMessage::get_decoded(pend).ok()?;
                {
                    let f: &mut Vec<u8> = match (&mut m, field) {
                        (PingPongMessage::Initialize { verifier_share }, 0) => verifier_share,
                        (PingPongMessage::Continue { verifier_message, .. }, 0) => verifier_message,
                        (PingPongMessage::Continue { verifier_share, .. }, 1) => verifier_share,
                        (PingPongMessage::Finish { verifier_message }, 0) => verifier_message,
                        _ => return None,
                    };
                    match how {
                        0 => f.push(0),
                        1 => {
                            f.pop()?;
                        }
                        2 => {
                            if f.is_empty() {
                                return None;
                            }
                            f.clear()
                        }
                        3 => f.extend_from_slice(&[0xA5, 0x5A]),
                        _ => {
                            if f.is_empty() {
                                return None;
                            }
                            let c = f.clone();
                            f.extend_from_slice(&c)
                        }
                    }
                }
                let b = m.get_encoded().ok()?;
                if b == *pend {
                    None
                } else {
                    Some(b)
                }
            }
        }
    }

    /// Evaluate a stored continuation three times from its encoding; all must agree byte for byte.
    #[allow(clippy::type_complexity)]
    fn evaluate(&self, p: u8, enc: &[u8]) -> Result<(Party, Option<Vec<u8>>), String> {
        let s = &self.0;
        let mut results: Vec<(Party, Option<Vec<u8>>)> = vec![];
        for _ in 0..3 {
            let cont = PingPongContinuation::<S, 16, A>::get_decoded_with_param(&(&s.vdaf, p as usize), enc).map_err(|e| format!("stored continuation does not decode: {e}"))?;
            let re = cont.get_encoded().map_err(|e| format!("continuation re-encode: {e}"))?;
            if re != enc {
                return Err("decoded continuation re-encodes differently".into());
            }
            let r = match catch(|| cont.evaluate(&s.ctx, &s.vdaf)) {
                Ok(Ok(r)) => r,
                Ok(Err(e)) => return Err(format!("evaluate failed on a stored continuation: {e}")),
                Err(m) => return Err(format!("evaluate panicked: {m}")),
            };
            let out = match r {
                PingPongState::Continued(c) => (Party::Waiting(c.verifier_state.get_encoded().map_err(|e| e.to_string())?), Some(c.message.get_encoded().map_err(|e| e.to_string())?)),
                PingPongState::FinishedWithOutbound { output_share, message } => (Party::Finished(output_share.get_encoded().map_err(|e| e.to_string())?), Some(message.get_encoded().map_err(|e| e.to_string())?)),
                PingPongState::Finished { output_share } => (Party::Finished(output_share.get_encoded().map_err(|e| e.to_string())?), None),
            };
            results.push(out);
        }
        if results[0] != results[1] || results[1] != results[2] {
            return Err("re-evaluating the same stored continuation gave different results".into());
        }
        Ok(results.remove(0))
    }
}

impl<A, const S: usize> Model for Pp<A, S>
where
    A: Aggregator<S, 16> + Send + Sync + 'static,
    A::VerifyState: Encode + for<'a> ParameterizedDecode<(&'a A, usize)>,
    A::OutputShare: PartialEq,
{
    type State = St;
    type Action = Act;

    fn init_states(&self) -> Vec<St> {
        vec![St { parties: [Party::Start, Party::Start], pending: [None, None], log: vec![], faults: 0, steps: 0, tainted: [false, false], conts: vec![], violation: None }]
    }

    fn actions(&self, st: &St, out: &mut Vec<Act>) {
        if st.violation.is_some() {
            return;
        }
        if st.parties[0] == Party::Start {
            out.push(Act::LeaderInit);
            return;
        }
        for i in 0..st.conts.len() {
            out.push(Act::ReEvaluate(i));
        }
        for p in 0..2u8 {
            match &st.parties[p as usize] {
                Party::HasCont(_) => out.push(Act::Evaluate(p)),
                Party::Start | Party::Waiting(_) => {
                    if p == 0 && st.parties[0] == Party::Start {
                        continue;
                    }
                    if st.pending[p as usize].is_some() {
                        out.push(Act::Deliver(p, Src::Pending));
                    }
                    if st.faults < self.0.budget {
                        for i in 0..st.log.len() {
                            out.push(Act::Deliver(p, Src::Log(i)));
                        }
                        if let Some(pend) = &st.pending[p as usize] {
                            for tag in 0..3u8 {
                                out.push(Act::Deliver(p, Src::Retype(tag)));
                            }
                            let positions: Vec<usize> = if self.0.corrupt_all_bytes { (0..pend.len()).collect() } else { vec![0, 1, 4, 5, pend.len().saturating_sub(1)] };
                            for pos in positions {
                                out.push(Act::Deliver(p, Src::Flip(pos)));
                            }
                            out.push(Act::Deliver(p, Src::Truncate));
                            out.push(Act::Deliver(p, Src::Extend));
                            out.push(Act::Deliver(p, Src::Empty));
                            for field in 0..2u8 {
                                for how in 0..5u8 {
                                    out.push(Act::Deliver(p, Src::Inner(field, how)));
                                }
                            }
                        }
                    }
                }
                Party::Finished(_) => {}
            }
        }
    }

    fn next_state(&self, st: &St, act: Act) -> Option<St> {
        let s = &self.0;
        let mut n = st.clone();
        if let Act::ReEvaluate(i) = act {
            // a self-loop unless the stored continuation behaves differently now
            let (p, enc, party, msg) = &st.conts[i];
            s.reevaluations.fetch_add(1, std::sync::atomic::Ordering::Relaxed);
            match self.evaluate(*p, enc) {
                Ok((party2, msg2)) if party2 == *party && msg2 == *msg => return None,
                Ok(_) => n.violation = Some(format!("party {p}: a continuation persisted earlier evaluates to a different state/message when reloaded later in the exchange")),
                Err(e) if st.tainted[*p as usize] && e.starts_with("evaluate failed") => return None,
                Err(e) => n.violation = Some(format!("party {p}: a continuation persisted earlier fails when reloaded later: {e}")),
            }
            return Some(n);
        }
        n.steps += 1;
        match act {
            Act::LeaderInit => {
                match catch(|| s.vdaf.leader_initialized(&s.vk, &s.ctx, &s.param, &s.nonce, &s.ps, &s.shares[0])) {
                    Ok(Ok(c)) => {
                        let sb = c.verifier_state.get_encoded().unwrap();
                        let mb = c.message.get_encoded().unwrap();
                        if !matches!(c.message, PingPongMessage::Initialize { .. }) {
                            n.violation = Some("leader_initialized did not produce an Initialize message".into());
                        }
                        n.parties[0] = Party::Waiting(sb);
                        n.pending[1] = Some(mb.clone());
                        n.log.push((1, mb));
                    }
                    other => n.violation = Some(format!("leader_initialized failed on an honest report: {:?}", other.map(|r| r.map(|_| ()).map_err(|e| e.to_string())))),
                }
                Some(n)
            }
            Act::ReEvaluate(_) => unreachable!("handled above"),
            Act::Evaluate(p) => {
                let Party::HasCont(enc) = &st.parties[p as usize] else { return None };
                match self.evaluate(p, enc) {
                    Ok((party, msg)) => {
                        if st.tainted[p as usize] && matches!(party, Party::Finished(_)) {
                            n.violation = Some(format!("party {p} released an output share although it had processed an altered message"));
                        }
                        n.conts.push((p, enc.clone(), party.clone(), msg.clone()));
                        n.parties[p as usize] = party;
                        if let Some(mb) = msg {
                            let to = 1 - p;
                            n.pending[to as usize] = Some(mb.clone());
                            n.log.push((to, mb));
                        }
                    }
                    Err(e) => {
                        if st.tainted[p as usize] && e.starts_with("evaluate failed") {
                            // the alteration was detected here: the report is dropped (terminal)
                            n.parties[p as usize] = Party::Start;
                            n.parties[0] = Party::Finished(b"DROPPED".to_vec());
                            n.parties[1] = Party::Finished(b"DROPPED".to_vec());
                            n.pending = [None, None];
                        } else {
                            n.violation = Some(format!("party {p}: {e}"))
                        }
                    }
                }
                Some(n)
            }
            Act::Deliver(p, src) => {
                let correct = src == Src::Pending;
                let bytes = self.message_bytes(st, p, &src)?;
                if !correct && !s.strict && matches!(src, Src::Log(_)) {
                    return None; // replays are indistinguishable for VDAFs with empty messages
                }
                let msg = PingPongMessage::get_decoded(&bytes);
                // the call the party makes, from its persisted form
                let result: Result<Result<PingPongContinuation<S, 16, A>, String>, String> = match (&st.parties[p as usize], &msg) {
                    (_, Err(e)) => Ok(Err(format!("undecodable: {e}"))),
                    (Party::Start, Ok(m)) => {
                        if p != 1 {
                            return None;
                        }
                        catch(|| s.vdaf.helper_initialized(&s.vk, &s.ctx, &s.param, &s.nonce, &s.ps, &s.shares[1], m).map_err(|e| e.to_string()))
                    }
                    (Party::Waiting(sb), Ok(m)) => {
                        let state = match A::VerifyState::get_decoded_with_param(&(&s.vdaf, p as usize), sb) {
                            Ok(x) => x,
                            Err(e) => {
                                n.violation = Some(format!("party {p}: stored verifier state does not decode: {e}"));
                                return Some(n);
                            }
                        };
                        if state.get_encoded().unwrap() != *sb {
                            n.violation = Some(format!("party {p}: stored verifier state re-encodes differently"));
                            return Some(n);
                        }
                        if p == 0 {
                            catch(|| s.vdaf.leader_continued(&s.ctx, &s.param, state, m).map_err(|e| e.to_string()))
                        } else {
                            catch(|| s.vdaf.helper_continued(&s.ctx, &s.param, state, m).map_err(|e| e.to_string()))
                        }
                    }
                    _ => return None,
                };
                match result {
                    Err(panic) => {
                        n.violation = Some(format!("party {p}: panic while processing a {} message ({:?}): {panic}", if correct { "correct" } else { "faulty" }, src));
                    }
                    Ok(Ok(cont)) => {
                        let sender_tainted = st.tainted[1 - p as usize];
                        if !correct {
                            let content_fault = matches!(src, Src::Flip(_));
                            if s.strict_content || !content_fault {
                                n.violation = Some(format!("party {p} accepted a faulty message ({:?}: {})", src, hex(&bytes)));
                                return Some(n);
                            }
                            // An altered-but-still-decodable payload of a real VDAF is not a topology
                            // fault (the statement lists wrong kind / wrong round / duplicated /
                            // undecodable): what the VDAF does with it is decided by C02 / C04.
                            s.not_judged.fetch_add(1, std::sync::atomic::Ordering::Relaxed);
                            return None;
                        }
                        if sender_tainted {
                            n.tainted[p as usize] = true;
                        }
                        n.pending[p as usize] = None;
                        // persist the continuation; an OutputShare continuation cannot be encoded: evaluate now
                        match cont.get_encoded() {
                            Ok(enc) => {
                                if cont.encoded_len() != Some(enc.len()) {
                                    n.violation = Some(format!("party {p}: continuation encoded_len {:?} != {}", cont.encoded_len(), enc.len()));
                                }
                                n.parties[p as usize] = Party::HasCont(enc);
                            }
                            Err(_) => match catch(|| cont.evaluate(&s.ctx, &s.vdaf)) {
                                Ok(Ok(PingPongState::Finished { output_share })) => {
                                    if n.tainted[p as usize] {
                                        n.violation = Some(format!("party {p} released an output share although it had processed an altered message"));
                                    }
                                    n.parties[p as usize] = Party::Finished(output_share.get_encoded().unwrap())
                                }
                                other => n.violation = Some(format!("party {p}: unencodable continuation did not evaluate to Finished: {:?}", other.map(|r| r.map(|_| ()).map_err(|e| e.to_string())))),
                            },
                        }
                    }
                    Ok(Err(e)) => {
                        if correct && st.tainted[1 - p as usize] {
                            // a message derived from an altered one was refused: report dropped (terminal)
                            n.parties[0] = Party::Finished(b"DROPPED".to_vec());
                            n.parties[1] = Party::Finished(b"DROPPED".to_vec());
                            n.pending = [None, None];
                        } else if correct {
                            n.violation = Some(format!("party {p} refused the correct message: {e}"));
                        } else {
                            // refused: nothing changes but the fault budget
                            n.faults += 1;
                        }
                    }
                }
                Some(n)
            }
        }
    }

    fn properties(&self) -> Vec<Property<Self>> {
        vec![
            Property::always("no protocol violation", |_, st: &St| st.violation.is_none()),
            Property::always("message kinds and outputs as specified", |m: &Self, st: &St| {
                // sequence of message kinds ever sent: Initialize, Continue x (R-1), Finish
                let kinds: Vec<u8> = st.log.iter().map(|(_, b)| b[0]).collect();
                let r = m.0.rounds;
                let mut want: Vec<u8> = vec![0];
                want.extend(std::iter::repeat(1).take(r - 1));
                want.push(2);
                if kinds.len() > want.len() || kinds[..] != want[..kinds.len()] {
                    return false;
                }
                // directions alternate, starting leader -> helper
                st.log.iter().enumerate().all(|(i, (to, _))| *to as usize == (i + 1) % 2)
            }),
            Property::sometimes("both finished", |_, st: &St| matches!((&st.parties[0], &st.parties[1]), (Party::Finished(a), Party::Finished(_)) if a != b"DROPPED")),
        ]
    }
}

/// Direct broadcast execution on live objects (reference for the outputs).
fn direct<A, const S: usize>(s: &Subject<A, S>) -> Result<Vec<Vec<u8>>, String>
where
    A: Aggregator<S, 16>,
{
    let mut states = vec![];
    let mut shares = vec![];
    for i in 0..2 {
        let (st, sh) = s.vdaf.verify_init(&s.vk, &s.ctx, i, &s.param, &s.nonce, &s.ps, &s.shares[i]).map_err(|e| e.to_string())?;
        states.push(st);
        shares.push(sh);
    }
    loop {
        let msg = s.vdaf.verifier_shares_to_message(&s.ctx, &s.param, shares.clone()).map_err(|e| e.to_string())?;
        let mut outs = vec![];
        let mut ns = vec![];
        let mut nsh = vec![];
        for st in states {
            match s.vdaf.verify_next(&s.ctx, st, msg.clone()).map_err(|e| e.to_string())? {
                VerifyTransition::Continue(a, b) => {
                    ns.push(a);
                    nsh.push(b);
                }
                VerifyTransition::Finish(o) => outs.push(o.get_encoded().unwrap()),
            }
        }
        if !outs.is_empty() {
            return Ok(outs);
        }
        states = ns;
        shares = nsh;
    }
}

fn check<A, const S: usize>(run: &Run, subj: Subject<A, S>)
where
    A: Aggregator<S, 16> + Send + Sync + 'static,
    A::VerifyState: Encode + for<'a> ParameterizedDecode<(&'a A, usize)> + Send + Sync,
    A::OutputShare: PartialEq,
    A::AggregationParam: Send + Sync,
    A::PublicShare: Send + Sync,
    A::InputShare: Send + Sync,
{
    let name = subj.name.clone();
    let want = match direct(&subj) {
        Ok(o) => o,
        Err(e) => panic!("{name}: direct execution failed: {e}"),
    };
    let subj = Arc::new(subj);
    check_all_terminals(run, &subj, &want);
    let mut counts = vec![];
    for attempt in 0..2 {
        let checker = Pp(subj.clone()).checker().threads(pvh::engine::par::threads()).spawn_bfs().join();
        let states = checker.unique_state_count();
        let trans = checker.state_count();
        counts.push((states, trans, checker.max_depth()));
        if attempt == 1 {
            break;
        }
        run.count("states", states as u64);
        run.count("transitions", trans as u64);
        run.count("evaluations", trans as u64);
        for pname in ["no protocol violation", "message kinds and outputs as specified"] {
            if let Some(path) = checker.discovery(pname) {
                let actions: Vec<String> = path.clone().into_actions().iter().map(|a| format!("{:?}", a)).collect();
                let last = path.last_state().clone();
                let why = last.violation.clone().unwrap_or_else(|| format!("message kinds sent: {:?}", last.log.iter().map(|(to, b)| (to, b[0])).collect::<Vec<_>>()));
                // classify for a stable key
                let class = if why.contains("accepted a faulty") {
                    let kind = actions.last().map(|a| a.split('(').nth(2).unwrap_or("?").split(|c| c == '(' || c == ')').next().unwrap_or("?").to_string()).unwrap_or_default();
                    format!("accepted_faulty/{kind}")
                } else if why.contains("refused the correct") {
                    "refused_correct".into()
                } else if why.contains("panic") {
                    "panic".into()
                } else if why.contains("different results") || why.contains("re-encodes") || why.contains("does not decode") {
                    "continuation_not_pure".into()
                } else if why.contains("message kinds") {
                    "message_sequence".into()
                } else {
                    "other".into()
                };
                run.fail(&format!("{name}/{class}"), &format!("{name}: {why}; trace: {}", actions.join(" -> ")), json!({"subject": name, "trace": actions, "why": why}));
            }
        }
        match checker.discovery("both finished") {
            None => run.fail(&format!("{name}/never_finishes"), &format!("{name}: no execution reaches both parties finished (vacuous model)"), json!({"subject": name})),
            Some(path) => {
                // every state with both finished must carry the direct-broadcast outputs; check along all terminal states via a second pass below
                let last = path.last_state().clone();
                if let (Party::Finished(a), Party::Finished(b)) = (&last.parties[0], &last.parties[1]) {
                    if a != b"DROPPED" && (*a != want[0] || *b != want[1]) {
                        run.fail(&format!("{name}/outputs_differ"), &format!("{name}: ping-pong outputs differ from the direct broadcast execution"), json!({"subject": name, "got": [hex(a), hex(b)], "want": [hex(&want[0]), hex(&want[1])]}));
                    }
                }
                run.sample(json!({"subject": name, "rounds": subj.rounds, "fault_budget": subj.budget, "states": states, "transitions": trans, "max_depth": checker.max_depth(), "example_trace_to_both_finished": path.into_actions().iter().map(|a| format!("{:?}", a)).collect::<Vec<_>>()}));
            }
        }
        run.distinct(fnv(name.as_bytes()));
    }
    run.count("later_reevaluations_of_stored_continuations", subj.reevaluations.load(std::sync::atomic::Ordering::Relaxed) / 3);
    run.count("evaluations", subj.reevaluations.load(std::sync::atomic::Ordering::Relaxed) / 3);
    run.count("altered_decodable_payloads_accepted_not_judged_here", subj.not_judged.load(std::sync::atomic::Ordering::Relaxed) / 3);
    if counts[0] != counts[1] {
        panic!("{name}: state counts differ between two runs of the checker: {:?} (non-deterministic model)", counts);
    }
}

/// Outputs in EVERY both-finished state equal the direct execution (explicit re-exploration,
/// since a `sometimes` discovery shows only one such state).
fn check_all_terminals<A, const S: usize>(run: &Run, subj: &Arc<Subject<A, S>>, want: &[Vec<u8>])
where
    A: Aggregator<S, 16> + Send + Sync + 'static,
    A::VerifyState: Encode + for<'a> ParameterizedDecode<(&'a A, usize)>,
    A::OutputShare: PartialEq,
{
    let m = Pp(subj.clone());
    let mut seen = std::collections::HashSet::new();
    let mut stack = m.init_states();
    let mut terminals = 0u64;
    while let Some(st) = stack.pop() {
        if !seen.insert(st.clone()) {
            continue;
        }
        if let (Party::Finished(a), Party::Finished(b)) = (&st.parties[0], &st.parties[1]) {
            terminals += 1;
            if a != b"DROPPED" && (*a != want[0] || *b != want[1]) {
                run.fail(&format!("{}/outputs_differ", subj.name), &format!("{}: a both-finished state carries outputs different from the direct broadcast execution", subj.name), json!({"subject": subj.name}));
                return;
            }
        }
        let mut acts = vec![];
        m.actions(&st, &mut acts);
        for a in acts {
            if let Some(n) = m.next_state(&st, a) {
                stack.push(n);
            }
        }
    }
    run.count("terminal_states_checked", terminals);
}

fn main() {
    let run = Run::from_args("C12", Level::ModelChecking);
    run.rule("stateright BFS over the ping-pong model: state = (leader, helper) each Start | Waiting(enc verifier state) | HasContinuation(enc continuation) | Finished(enc output), the message in flight, the log of all messages, faults used; actions = leader_initialized, Deliver(correct pending | any earlier message | pending re-typed to another variant | byte flip / truncate / extend / empty | one inner opaque field of the well-formed pending message lengthened, shortened, emptied or doubled), Evaluate(stored continuation, decoded and evaluated 3x), ReEvaluate(any continuation persisted earlier, at every later state); every transition calls the real routines on values reloaded from their encodings; fault budget = deviation bound. distinct = subjects (VDAF x rounds x budget)");
    run.assume("two parties (the topology's definition); the dummy VDAF's empty messages make replays indistinguishable, so only kind/undecodable faults are judged for it");
    let q = run.quick();
    let budget = if q { 2 } else { 3 };
    let tape = Tape::Seeded(run.seed ^ 0xC12);
    // (i) strict instrumented VDAF, 1..6 rounds
    for rounds in 1..=6u8 {
        let subj = Subject { name: format!("Strict(rounds={rounds})"), vdaf: Strict { rounds }, vk: [7u8; 32], ctx: b"c12".to_vec(), param: SParam { p: 9 }, nonce: [1u8; 16], ps: (), shares: vec![SInput { agg_id: 0, value: 11 }, SInput { agg_id: 1, value: 22 }], rounds: rounds as usize, strict: true, strict_content: true, budget: if q { 2 } else { 3 }, corrupt_all_bytes: true, not_judged: Default::default(), reevaluations: Default::default() };
        check(&run, subj);
    }
    // (ii) Prio3: Count, Sum, Histogram / SumVec (joint randomness), multi-proof SumVec over Field64
    let ntapes = if q { 1 } else { 3 };
    for t in 0..ntapes {
        let tape = Tape::Seeded(run.seed ^ 0xC12 ^ (t as u64 * 0x9E37));
        let sfx = if t == 0 { String::new() } else { format!("#{t}") };
        let nonce: [u8; 16] = tape.array(1);
        let vdaf = Prio3::new_count(2).unwrap();
        for m in [true, false] {
            let (ps, shares) = vdaf.shard_with_random(b"c12", &m, &nonce, &tape.bytes(2, 64)).unwrap();
            check(&run, Subject { name: format!("Prio3Count({m}){sfx}"), vdaf: vdaf.clone(), vk: tape.array(3), ctx: b"c12".to_vec(), param: (), nonce, ps, shares, rounds: 1, strict: true, strict_content: false, budget, corrupt_all_bytes: true, not_judged: Default::default(), reevaluations: Default::default() });
        }
        let vdaf = Prio3::new_sum(2, 1000).unwrap();
        let (ps, shares) = vdaf.shard_with_random(b"c12", &777u64, &nonce, &tape.bytes(6, 64)).unwrap();
        check(&run, Subject { name: format!("Prio3Sum{sfx}"), vdaf, vk: tape.array(7), ctx: b"c12".to_vec(), param: (), nonce, ps, shares, rounds: 1, strict: true, strict_content: false, budget, corrupt_all_bytes: !q, not_judged: Default::default(), reevaluations: Default::default() });
        let vdaf = Prio3::new_histogram(2, 4, 2).unwrap();
        let (ps, shares) = vdaf.shard_with_random(b"c12", &2usize, &nonce, &tape.bytes(4, 128)).unwrap();
        check(&run, Subject { name: format!("Prio3Histogram{sfx}"), vdaf, vk: tape.array(5), ctx: b"c12".to_vec(), param: (), nonce, ps, shares, rounds: 1, strict: true, strict_content: false, budget, corrupt_all_bytes: true, not_judged: Default::default(), reevaluations: Default::default() });
        // exactly one joint-randomness element (the whole encoding fits one chunk)
        let vdaf = Prio3::new_histogram(2, 3, 4).unwrap();
        let (ps, shares) = vdaf.shard_with_random(b"c12", &1usize, &nonce, &tape.bytes(15, 128)).unwrap();
        check(&run, Subject { name: format!("Prio3Histogram(single chunk){sfx}"), vdaf, vk: tape.array(16), ctx: b"c12".to_vec(), param: (), nonce, ps, shares, rounds: 1, strict: true, strict_content: false, budget, corrupt_all_bytes: !q, not_judged: Default::default(), reevaluations: Default::default() });
        let vdaf = Prio3::new_sum_vec(2, 2, 3, 2).unwrap();
        let (ps, shares) = vdaf.shard_with_random(b"c12", &vec![1u128, 2, 0], &nonce, &tape.bytes(8, 128)).unwrap();
        check(&run, Subject { name: format!("Prio3SumVec{sfx}"), vdaf, vk: tape.array(9), ctx: b"c12".to_vec(), param: (), nonce, ps, shares, rounds: 1, strict: true, strict_content: false, budget, corrupt_all_bytes: !q, not_judged: Default::default(), reevaluations: Default::default() });
        let typ: SumVec<Field64, ParallelSum<Field64, Mul>> = SumVec::new(1, 4, 2).unwrap();
        let vdaf: Prio3<_, XofTurboShake128, 32> = Prio3::new(2, 3, 0xFFFF_1203, typ).unwrap();
        let (ps, shares) = vdaf.shard_with_random(b"c12", &vec![1u64, 0, 1, 1], &nonce, &tape.bytes(10, 128)).unwrap();
        check(&run, Subject { name: format!("Prio3SumVecField64(proofs=3){sfx}"), vdaf, vk: tape.array(14), ctx: b"c12".to_vec(), param: (), nonce, ps, shares, rounds: 1, strict: true, strict_content: false, budget, corrupt_all_bytes: !q, not_judged: Default::default(), reevaluations: Default::default() });
    }
    // a LARGE Prio3 instance: the persisted continuation (it holds the 80 KB output share) exceeds 64 KiB
    {
        let vdaf = Prio3::new_sum_vec(2, 1, 5000, 70).unwrap();
        let nonce: [u8; 16] = tape.array(21);
        let m: Vec<u128> = (0..5000).map(|i| (i % 3 == 0) as u128).collect();
        let (ps, shares) = vdaf.shard_with_random(b"c12", &m, &nonce, &tape.bytes(22, 128)).unwrap();
        check(&run, Subject { name: "Prio3SumVec(len=5000)".into(), vdaf, vk: tape.array(23), ctx: b"c12".to_vec(), param: (), nonce, ps, shares, rounds: 1, strict: true, strict_content: false, budget: 1, corrupt_all_bytes: false, not_judged: Default::default(), reevaluations: Default::default() });
    }
    // (iii) Poplar1, every level of bits 1..3 and selected levels of longer inputs (2 rounds)
    let mut pl: Vec<(usize, usize)> = vec![(1, 0), (2, 0), (2, 1), (3, 0), (3, 1), (3, 2), (9, 7), (9, 8)];
    if !q {
        pl.extend([(64, 0), (64, 31), (64, 63), (257, 255), (257, 256)]);
    }
    for (bits, level) in pl {
        let vdaf: Poplar1<XofTurboShake128, 32> = Poplar1::new(bits);
        let input: Vec<bool> = (0..bits).map(|i| i % 2 == 0).collect();
        let nonce: [u8; 16] = tape.array(11);
        let (ps, shares) = vdaf.shard_with_random(b"c12", &IdpfInput::from_bools(&input), &nonce, &tape.bytes(12, 32 + 96)).unwrap();
        let mut on = input[..=level].to_vec();
        let mut sib = on.clone();
        sib[level] = !sib[level];
        if sib < on {
            std::mem::swap(&mut on, &mut sib);
        }
        let param = Poplar1AggregationParam::try_from_prefixes(vec![IdpfInput::from_bools(&on), IdpfInput::from_bools(&sib)]).unwrap();
        check(&run, Subject { name: format!("Poplar1(bits={bits},level={level})"), vdaf, vk: tape.array(13), ctx: b"c12".to_vec(), param, nonce, ps, shares, rounds: 2, strict: true, strict_content: false, budget, corrupt_all_bytes: bits <= 3 || !q, not_judged: Default::default(), reevaluations: Default::default() });
    }
    // (iv) the crate's dummy VDAF, 1..5 rounds
    for rounds in 1..=5u32 {
        let vdaf = prio::vdaf::dummy::Vdaf::new(rounds);
        check(&run, Subject { name: format!("Dummy(rounds={rounds})"), vdaf, vk: [], ctx: b"c12".to_vec(), param: prio::vdaf::dummy::AggregationParam(3), nonce: [0u8; 16], ps: (), shares: vec![prio::vdaf::dummy::InputShare(5), prio::vdaf::dummy::InputShare(9)], rounds: rounds as usize, strict: false, strict_content: true, budget, corrupt_all_bytes: false, not_judged: Default::default(), reevaluations: Default::default() });
    }
    run.exhaustive(true);
    run.finish();
}

