//! C14 — multithreaded gadget evaluation is bit-identical to serial under any schedule.
//!
//! Engine: choice-tape exploration of work-stealing outcomes. rayon cannot be rebuilt on loom or
//! shuttle, so a vendored copy of rayon 1.12.0 (/verif/vendor, 3 edited hunks) routes the two
//! schedule-dependent decisions of `bridge_producer_consumer` to an oracle: the logical thread
//! count (split budget) and "was this right child stolen?". The explorer enumerates EVERY steal
//! pattern (all 0/1 answer sequences) for logical pool sizes 1..16 on a real 1-thread pool (so the
//! order of oracle questions is deterministic); the real par_chunks/fold/map/reduce consumers and
//! join_context run. Each schedule's result must be byte-identical to the serial gadget / type.
use prio::codec::Encode;
use prio::field::{Field128, Field64, FieldElement};
use prio::flp::gadgets::{Mul, ParallelSum, ParallelSumGadget, ParallelSumMultithreaded};
use prio::flp::{Gadget, Type};
use prio::vdaf::prio3::Prio3;
use prio::vdaf::test_utils::TestVectorClient;
use prio::vdaf::xof::XofTurboShake128;
use pvh::engine::choices::{explore, Chooser};
use pvh::engine::tape::{tape_alphabet, Tape};
use pvh::engine::{catch, fnv, splitmix, Level, Run};
use pvh::kit::vdafkit::{verify_report, VerifyOpts};
use rayon::verif_oracle::{self, Query};
use serde_json::json;
use std::collections::HashSet;
use std::sync::{Arc, Mutex};

type P3<T> = Prio3<T, XofTurboShake128, 32>;

/// Run `f` on the 1-thread pool with the oracle answering from `ch`; returns f's result and the
/// trace of (right-child length, stolen) decisions.
fn with_oracle<R: Send>(pool: &rayon::ThreadPool, n_logical: usize, ch: &mut Chooser, f: impl FnOnce() -> R + Send) -> (R, Vec<(usize, bool)>) {
    let shared = Arc::new(Mutex::new((std::mem::take(ch), Vec::<(usize, bool)>::new())));
    let s2 = shared.clone();
    verif_oracle::set(Some(Box::new(move |q: &Query| match q {
        Query::NumThreads => n_logical,
        Query::Stolen { len } => {
            let mut g = s2.lock().unwrap();
            let stolen = g.0.flip();
            g.1.push((*len, stolen));
            stolen as usize
        }
    })));
    let r = pool.install(f);
    verif_oracle::set(None);
    let (c, trace) = std::mem::take(&mut *shared.lock().unwrap());
    *ch = c;
    (r, trace)
}

fn wire_poly(len: usize, st: &mut u64, p_hint: u128) -> Vec<Field128> {
    let _ = p_hint;
    (0..len).map(|_| Field128::from(((splitmix(st) as u128) << 64) | splitmix(st) as u128 % (1u128 << 60))).collect()
}

/// Bare gadget: ParallelSumMultithreaded::eval_poly vs ParallelSum::eval_poly.
fn gadget_case(run: &Run, pool: &rayon::ThreadPool, chunks: usize, calls: usize, n_logical: usize, max_exec: u64, bound: u32) {
    gadget_case_g(run, pool, "Mul", Mul::new(calls), chunks, calls, n_logical, max_exec, bound)
}

/// The same for any inner gadget (the type is generic in it): `PolyEval` has arity 1 and degree d.
#[allow(clippy::too_many_arguments)]
fn gadget_case_g<G>(run: &Run, pool: &rayon::ThreadPool, gname: &str, inner: G, chunks: usize, calls: usize, n_logical: usize, max_exec: u64, bound: u32)
where
    G: 'static + Gadget<Field128> + Clone + Send + Sync,
{
    let p = (1 + calls).next_power_of_two();
    let (arity, degree) = (inner.arity(), inner.degree());
    let out_len = (degree * (p - 1) + 1).next_power_of_two();
    let mut st = run.seed ^ fnv(format!("{gname}/{chunks}/{calls}").as_bytes());
    let inp: Vec<Vec<Field128>> = (0..arity * chunks).map(|i| if i % 5 == 4 { vec![Field128::zero(); p] } else { wire_poly(p, &mut st, 0) }).collect();
    let serial: ParallelSum<Field128, G> = ParallelSum::new(inner.clone(), chunks);
    let multi: ParallelSumMultithreaded<Field128, G> = ParallelSumMultithreaded::new(inner, chunks);
    let mut want = vec![Field128::zero(); out_len];
    serial.eval_poly(&mut want, &inp).expect("serial ParallelSum::eval_poly");
    let mut traces: HashSet<Vec<(usize, bool)>> = HashSet::new();
    let mut bad: Option<(Vec<(usize, bool)>, String)> = None;
    // a clone of a clone of the gadget (a worker's private copy) must behave like the original (default schedule)
    {
        let multi_clone = multi.clone().clone();
        let mut out = vec![Field128::from(0xDEADu128); out_len];
        let mut ch = Chooser::new(vec![]);
        let (res, _) = with_oracle(pool, n_logical, &mut ch, || catch(|| multi_clone.eval_poly(&mut out, &inp).map_err(|e| e.to_string())));
        run.count("evaluations", 1);
        if !matches!(res, Ok(Ok(()))) || out != want {
            run.fail(&format!("gadget/{gname}/clone"), &format!("a clone of ParallelSumMultithreaded<{gname}>(chunks={chunks}, calls={calls}) does not evaluate like the serial gadget: {:?}", res.map(|r| r.map(|_| "output differs"))), json!({"inner": gname, "chunks": chunks, "calls": calls}));
            return;
        }
    }
    let stats = explore(bound, max_exec, |ch| {
        // output buffer pre-filled with junk: the gadget must overwrite all of it
        let mut out = vec![Field128::from(0xDEADu128); out_len];
        let (res, trace) = with_oracle(pool, n_logical, ch, || catch(|| multi.eval_poly(&mut out, &inp).map_err(|e| e.to_string())));
        match res {
            Ok(Ok(())) => {
                if out != want && bad.is_none() {
                    bad = Some((trace.clone(), "output differs from the serial gadget".into()));
                }
            }
            other => {
                if bad.is_none() {
                    bad = Some((trace.clone(), format!("{:?}", other)));
                }
            }
        }
        traces.insert(trace);
    });
    run.count("states", traces.len() as u64);
    run.count("transitions", stats.executions);
    run.count("evaluations", stats.executions);
    run.count("schedules", stats.executions);
    if stats.truncated {
        run.count("truncated_explorations", 1);
    }
    run.distinct_many(traces.iter().map(|t| fnv(format!("g/{gname}/{chunks}/{calls}/{n_logical}/{:?}", t).as_bytes())));
    if let Some((trace, why)) = bad {
        let key = if gname == "Mul" { format!("gadget/chunks={chunks}/calls={calls}/threads={n_logical}") } else { format!("gadget/{gname}/chunks={chunks}/calls={calls}/threads={n_logical}") };
        run.fail(&key, &format!("ParallelSumMultithreaded<{gname}>(chunks={chunks}, calls={calls}) with {n_logical} logical threads: {why}; steal pattern {:?}", trace), json!({"inner": gname, "chunks": chunks, "calls": calls, "threads": n_logical, "steals": trace}));
    }
    if chunks == 8 && calls == 3 && gname == "Mul" {
        let mut ex: Vec<&Vec<(usize, bool)>> = traces.iter().collect();
        ex.sort();
        run.sample(json!({"subject": "ParallelSumMultithreaded", "chunks": chunks, "calls": calls, "logical_threads": n_logical, "schedules": stats.executions, "distinct_split_trees": traces.len(), "example_steal_pattern": ex[ex.len() / 2]}));
    }
}

/// Whole Prio3 type: multithreaded vs serial sharding (the only place eval_poly runs), then
/// verification and aggregation of the multithreaded report by the multithreaded type.
#[allow(clippy::too_many_arguments)]
fn type_case<TS, TM>(run: &Run, pool: &rayon::ThreadPool, name: &str, serial: P3<TS>, multi: P3<TM>, jr: bool, meas: &[TS::Measurement], n_logical: usize, tape: &Tape, max_exec: u64, bound: u32)
where
    TS: Type<Field = Field128> + Clone + Send + Sync + 'static,
    TM: Type<Field = Field128, Measurement = TS::Measurement, AggregateResult = TS::AggregateResult> + Clone + Send + Sync + 'static,
    TS::Measurement: Send + Sync,
    TS::AggregateResult: PartialEq + std::fmt::Debug,
{
    for (mi, m) in meas.iter().enumerate() {
        let ctx = b"c14".to_vec();
        let nonce: [u8; 16] = tape.array(1 + mi as u64);
        let vk: [u8; 32] = tape.array(2);
        let random = tape.bytes(3 + mi as u64, if jr { 4 * 32 } else { 2 * 32 });
        let (ps_s, sh_s) = serial.shard_with_random(&ctx, m, &nonce, &random).unwrap();
        let want_ps = ps_s.get_encoded().unwrap();
        let want_sh: Vec<Vec<u8>> = sh_s.iter().map(|s| s.get_encoded().unwrap()).collect();
        let (outs_s, tr_s) = verify_report::<P3<TS>, 32>(&serial, &vk, &ctx, &(), &nonce, &ps_s, &sh_s, &VerifyOpts::wire()).unwrap();
        let _ = outs_s;
        let mut traces: HashSet<Vec<(usize, bool)>> = HashSet::new();
        let mut bad: Option<(Vec<(usize, bool)>, String)> = None;
        let stats = explore(bound, max_exec, |ch| {
            let (res, trace) = with_oracle(pool, n_logical, ch, || catch(|| multi.shard_with_random(&ctx, m, &nonce, &random).map_err(|e| e.to_string())));
            match res {
                Ok(Ok((ps, sh))) => {
                    let got_sh: Vec<Vec<u8>> = sh.iter().map(|s| s.get_encoded().unwrap()).collect();
                    if ps.get_encoded().unwrap() != want_ps {
                        bad.get_or_insert((trace.clone(), "public share differs from the serial type".into()));
                    } else if got_sh != want_sh {
                        bad.get_or_insert((trace.clone(), "input shares differ from the serial type".into()));
                    } else if traces.len() < 3 {
                        // verification by the multithreaded type (same code path as serial: query/decide
                        // never call eval_poly) must give byte-identical verifier and output shares
                        match verify_report::<P3<TM>, 32>(&multi, &vk, &ctx, &(), &nonce, &ps, &sh, &VerifyOpts::wire()) {
                            Ok((_o, tr)) => {
                                if tr.verifier_shares != tr_s.verifier_shares || tr.output_shares != tr_s.output_shares || tr.verifier_messages != tr_s.verifier_messages {
                                    bad.get_or_insert((trace.clone(), "verifier/output shares differ from the serial type".into()));
                                }
                            }
                            Err(f) => {
                                bad.get_or_insert((trace.clone(), format!("multithreaded verification failed: {:?}", f)));
                            }
                        }
                    }
                }
                other => {
                    bad.get_or_insert((trace.clone(), format!("{:?}", other)));
                }
            }
            traces.insert(trace);
        });
        run.count("states", traces.len() as u64);
        run.count("transitions", stats.executions);
        run.count("evaluations", stats.executions);
        run.count("schedules", stats.executions);
        if stats.truncated {
            run.count("truncated_explorations", 1);
        }
        run.distinct_many(traces.iter().map(|t| fnv(format!("t/{name}/{n_logical}/{mi}/{:?}", t).as_bytes())));
        if let Some((trace, why)) = bad {
            run.fail(&format!("type/{name}/threads={n_logical}"), &format!("{name} with {n_logical} logical threads, measurement #{mi}: {why}; steal pattern {:?}", trace), json!({"type": name, "threads": n_logical, "measurement": mi, "steals": trace}));
            return;
        }
    }
}

/// Free-running pass on real pools (sampling; guards the assumption "the outcome depends on the
/// schedule only through the split tree", never decides alone). Many small jobs on pools of 2..16
/// real threads, so that fold steps of different workers genuinely overlap in time: closures that
/// share mutable state (which the exhaustive part, run on a 1-thread pool, cannot see) show up here
/// with high probability.
fn free_running(run: &Run) {
    // the last two shapes are LARGE jobs (> 2^14 field elements of wire polynomials): size-dependent code paths
    for (chunks, calls) in [(9usize, 3usize), (64, 1), (257, 1), (33, 7), (5000, 1), (1200, 7)] {
        let p = (1 + calls).next_power_of_two();
        let mut st = run.seed ^ 0xF5EE ^ chunks as u64;
        let inp: Vec<Vec<Field128>> = (0..2 * chunks).map(|_| wire_poly(p, &mut st, 0)).collect();
        let serial: ParallelSum<Field128, Mul> = ParallelSum::new(Mul::new(calls), chunks);
        let multi: ParallelSumMultithreaded<Field128, Mul> = ParallelSumMultithreaded::new(Mul::new(calls), chunks);
        let mut want = vec![Field128::zero(); 2 * p];
        serial.eval_poly(&mut want, &inp).unwrap();
        for threads in [2usize, 3, 4, 8, 16] {
            let pool = rayon::ThreadPoolBuilder::new().num_threads(threads).build().unwrap();
            for _ in 0..if chunks >= 1000 { run.pick(40, 400) } else { run.pick(150, 3000) } {
                let mut out = vec![Field128::from(7u128); 2 * p];
                let r = catch(|| pool.install(|| multi.eval_poly(&mut out, &inp)));
                run.count("free_running_samples", 1);
                if !matches!(r, Ok(Ok(()))) || out != want {
                    run.fail(&format!("free_running/chunks={chunks}/threads={threads}"), &format!("ParallelSumMultithreaded(chunks={chunks}, calls={calls}) on a free-running pool of {threads} threads produced a result different from the serial gadget (or failed)"), json!({"threads": threads, "chunks": chunks, "calls": calls}));
                    return;
                }
            }
        }
    }
}

/// Syntactic re-check of the assumption "closures share no mutable state": non-test library code
/// contains no unsafe / static mut / interior mutability (reported, never a violation).
fn scan_assumption(run: &Run) {
    let mut hits = vec![];
    let root = std::env::var("VERIF_REPO").unwrap_or_else(|_| "/repo".into());
    let mut stack = vec![std::path::PathBuf::from(format!("{root}/src"))];
    while let Some(d) = stack.pop() {
        for e in std::fs::read_dir(&d).into_iter().flatten().flatten() {
            let p = e.path();
            if p.is_dir() {
                stack.push(p);
            } else if p.extension().map(|x| x == "rs").unwrap_or(false) {
                let name = p.to_string_lossy().to_string();
                if name.ends_with("verif_hooks.rs") || name.contains("verif_small") || name.ends_with("field/verif.rs") {
                    continue;
                }
                let text = std::fs::read_to_string(&p).unwrap_or_default();
                let body = text.split("#[cfg(test)]\nmod tests").next().unwrap_or("");
                let body = body.split("#[cfg(feature = \"verif-hooks\")]\npub mod verif").next().unwrap_or("");
                for tok in ["unsafe ", "static mut", "RefCell<", "Cell<", "Mutex<", "RwLock<", "AtomicU", "AtomicBool", "lazy_static", "OnceCell", "thread_local!"] {
                    if body.contains(tok) {
                        hits.push(format!("{}: {}", name.trim_start_matches(root.as_str()).trim_start_matches('/'), tok.trim()));
                    }
                }
            }
        }
    }
    hits.sort();
    run.note("shared_mutable_state_tokens_in_non_test_code", json!(hits));
    run.assume("the result depends on the schedule only through the split tree (which jobs were stolen): true while the fold/reduce closures share no mutable state; the syntactic scan of non-test code for unsafe/static mut/interior mutability is reported in coverage.shared_mutable_state_tokens_in_non_test_code");
}

fn main() {
    let run = Run::from_args("C14", Level::ModelChecking);
    run.rule("schedules = all 0/1 answer sequences to 'was this right child stolen?' in rayon's bridge_producer_consumer (vendored copy, oracle-driven), for logical pool sizes {1,2,3,4,8,16} x chunk counts 1..8 (thorough ..12) x gadget calls {1,2,3,7}, for the bare ParallelSumMultithreaded gadget (inner gadget Mul, and PolyEval of degree 1..3 whose arity differs from its degree) and for Prio3{SumVec,Histogram,MultihotCountVec}Multithreaded sharding (+ verification); executed on a real 1-thread pool; states = distinct split trees (decision traces), transitions = executions; oracle = byte equality with the serial gadget / serial type under the same tape");
    let q = run.quick();
    let pool = rayon::ThreadPoolBuilder::new().num_threads(1).build().unwrap();
    let max_exec: u64 = if q { 10_000 } else { 200_000 };
    let threads: Vec<usize> = vec![1, 2, 3, 4, 8, 16];
    let max_chunks = if q { 12 } else { 16 };
    for chunks in 1..=max_chunks {
        for calls in [1usize, 2, 3, 7] {
            for &n in &threads {
                if chunks > 12 && (calls == 2 || calls == 7) {
                    continue;
                }
                gadget_case(&run, &pool, chunks, calls, n, max_exec, u32::MAX);
            }
        }
    }
    // many chunks (more than any per-job minimum a pipeline might use): the number of steal patterns
    // is astronomically large, so these are explored with a deviation bound (<= 2 steals, thorough 3)
    let big_bound = if q { 2 } else { 3 };
    for chunks in [33usize, 64, 65, 100, 129, 257] {
        for &n in &[1usize, 2, 16] {
            if q && chunks > 129 {
                continue;
            }
            gadget_case(&run, &pool, chunks, 1, n, max_exec, big_bound);
        }
    }
    // other inner gadgets: PolyEval (arity 1) of degree 2, 3 and 1 — arity and degree differ
    for (gname, coeffs) in [("PolyEval(deg2)", vec![3u128, 0, 1]), ("PolyEval(deg3)", vec![0u128, 5, 0, 2]), ("PolyEval(deg1)", vec![7u128, 1])] {
        for chunks in if q { vec![1usize, 2, 3, 5, 8] } else { (1..=10).collect() } {
            for calls in [1usize, 3] {
                for &n in &[1usize, 2, 4, 16] {
                    let inner = prio::flp::gadgets::PolyEval::new(coeffs.iter().map(|c| Field128::from(*c)).collect(), calls);
                    gadget_case_g(&run, &pool, gname, inner, chunks, calls, n, max_exec, u32::MAX);
                }
            }
        }
    }
    // a LARGE job (> 2^14 field elements): size-dependent code paths, at most one steal (thorough: two)
    for &n in &[2usize, 16] {
        gadget_case(&run, &pool, 5000, 1, n, max_exec, if q { 1 } else { 2 });
    }
    run.note("deviation_bounded_cases", json!({"chunks": [33, 64, 65, 100, 129, 257], "max_steals": big_bound}));
    eprintln!("[{:.1}s] gadget", run.elapsed());
    let tapes = tape_alphabet(run.seed, 1);
    let tape = &tapes[3].1;
    for &n in &threads {

        // the library's own constructors for the multithreaded variants vs their serial counterparts
        for (len, chunk) in [(3usize, 1usize), (4, 2), (9, 2), (5, 7)] {
            let serial = Prio3::new_sum_vec(2, 3, len, chunk).unwrap();
            let multi = Prio3::new_sum_vec_multithreaded(2, 3, len, chunk).unwrap();
            let meas: Vec<Vec<u128>> = vec![vec![0; len], vec![3; len], (0..len).map(|i| (i % 4) as u128).collect()];
            type_case(&run, &pool, &format!("SumVec(max=3,len={len},chunk={chunk})"), serial, multi, true, &meas[..if q { 2 } else { 3 }], n, tape, max_exec, u32::MAX);
        }
        for (len, chunk) in [(6usize, 3usize), (10, 2), (3, 5)] {
            let serial = Prio3::new_histogram(2, len, chunk).unwrap();
            let multi = Prio3::new_histogram_multithreaded(2, len, chunk).unwrap();
            type_case(&run, &pool, &format!("Histogram(len={len},chunk={chunk})"), serial, multi, true, &[0usize, len - 1], n, tape, max_exec, u32::MAX);
        }
        for (len, maxw, chunk) in [(5usize, 2usize, 2usize), (7, 3, 4)] {
            let serial = Prio3::new_multihot_count_vec(2, len, maxw, chunk).unwrap();
            let multi = Prio3::new_multihot_count_vec_multithreaded(2, len, maxw, chunk).unwrap();
            let meas: Vec<Vec<bool>> = vec![vec![false; len], (0..len).map(|i| i < maxw).collect()];
            type_case(&run, &pool, &format!("MultihotCountVec(len={len},maxw={maxw},chunk={chunk})"), serial, multi, true, &meas, n, tape, max_exec, u32::MAX);
        }
        // long chunk lengths (many parallel chunks), deviation-bounded
        if n == 1 || n == 16 {
            for (len, chunk) in [(20usize, 70usize), (40, 130)] {
                let serial = Prio3::new_sum_vec(2, 255, len, chunk).unwrap();
                let multi = Prio3::new_sum_vec_multithreaded(2, 255, len, chunk).unwrap();
                let meas: Vec<Vec<u128>> = vec![(0..len).map(|i| (i * 37 % 256) as u128).collect()];
                type_case(&run, &pool, &format!("SumVec(max=255,len={len},chunk={chunk})"), serial, multi, true, &meas, n, tape, max_exec, big_bound);
            }
            let serial = Prio3::new_histogram(2, 300, 100).unwrap();
            let multi = Prio3::new_histogram_multithreaded(2, 300, 100).unwrap();
            type_case(&run, &pool, "Histogram(len=300,chunk=100)", serial, multi, true, &[17usize], n, tape, max_exec, big_bound);
        }
    }
    eprintln!("[{:.1}s] types", run.elapsed());
    let _ = Field64::zero();
    free_running(&run);
    scan_assumption(&run);
    run.exhaustive(run.get("truncated_explorations") == 0);
    run.note("exploration", json!({"max_executions_per_case": max_exec, "truncated_cases": run.get("truncated_explorations"), "bound": "all steal patterns (unbounded number of steals) per case unless truncated"}));
    run.finish();
}
