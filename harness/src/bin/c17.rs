//! C17 — helper shares are independent of the measurement; the leader share is masked.
//!
//! Engine: bounded-exhaustive sweep over all ordered pairs of measurements (full domain when small,
//! edge set otherwise) x sharding tapes x nonces x instances, comparing the encoded shares byte-wise.
use prio::codec::Encode;
use prio::field::verif::{FieldV17, FieldV97};
use prio::field::{Field128, Field64};
use prio::flp::Type;
use prio::idpf::IdpfInput;
use prio::vdaf::poplar1::Poplar1;
use prio::vdaf::prio3::{Prio3, Prio3InputShare};
use prio::vdaf::test_utils::TestVectorClient;
use prio::vdaf::xof::XofTurboShake128;
use pvh::engine::tape::{tape_alphabet, Tape};
use pvh::engine::{catch, fnv, par, Level, Run};
use pvh::kit::ints::{IntConv, KitField};
use pvh::kit::p3cases::*;
use serde_json::json;

type P3<T> = Prio3<T, XofTurboShake128, 32>;

fn run_case<T>(run: &Run, case: &Case<T>, aggs: &[u8], proofs: &[u8], tapes: &[(String, Tape)])
where
    T: Type + Clone + Send + Sync + 'static,
    T::Field: KitField,
    <T::Field as prio::field::FieldElementWithInteger>::Integer: IntConv,
    T::Measurement: Send + Sync,
{
    let jr = case.typ.joint_rand_len() > 0;
    let mut items = vec![];
    for &a in aggs {
        for &p in proofs {
            for ti in 0..tapes.len() {
                items.push((a, p, ti));
            }
        }
    }
    par::for_each(items.len() as u64, |ix| {
        let (na, np, ti) = items[ix as usize];
        let (tname, tape) = &tapes[ti];
        let vdaf: P3<T> = Prio3::new(na, np, case.alg, case.typ.clone()).unwrap();
        let ctx: Vec<u8> = tape.bytes(5, ti % 4 * 9);
        let nonce: [u8; 16] = tape.array(6);
        let random = tape.bytes(7, if jr { 2 * na as usize * 32 } else { na as usize * 32 });
        // shard every measurement with the SAME randomness and nonce
        let mut sharded = vec![];
        for m in &case.meas {
            match catch(|| vdaf.shard_with_random(&ctx, m, &nonce, &random)) {
                Ok(Ok((ps, shares))) => {
                    let enc = case.typ.encode_measurement(m).unwrap();
                    for (k, sh) in shares.iter().enumerate() {
                        if let Err(e) = assembled_report_ok(sh, &ps) {
                            run.fail(&format!("{}/assembled_report/agg{}", case.name, k.min(1)), &format!("{} (aggs={na}, proofs={np}, tape {tname}): report assembled in one buffer, aggregator {k}: {e}", case.name), json!({"case": case.name, "aggs": na, "agg": k}));
                            return;
                        }
                    }
                    sharded.push((ps.get_encoded().unwrap(), shares, enc));
                }
                other => {
                    run.fail(&format!("{}/shard", case.name), &format!("{}: shard failed: {:?}", case.name, other.map(|r| r.map(|_| ()).map_err(|e| e.to_string()))), json!({"case": case.name}));
                    return;
                }
            }
        }
        run.count("evaluations", sharded.len() as u64);
        let n = sharded.len();
        for i in 0..n {
            for j in 0..n {
                if i == j {
                    continue;
                }
                run.count("pairs", 1);
                let (ps_i, sh_i, enc_i) = &sharded[i];
                let (ps_j, sh_j, enc_j) = &sharded[j];
                let case_json = || json!({"case": case.name, "aggs": na, "proofs": np, "tape": tname, "m1": i, "m2": j});
                // helpers: byte-identical
                for a in 1..na as usize {
                    if sh_i[a].get_encoded().unwrap() != sh_j[a].get_encoded().unwrap() {
                        run.fail(&format!("{}/helper_share_depends_on_measurement", case.name), &format!("{}: helper {a}'s input share differs between measurements #{i} and #{j} under the same randomness and nonce (aggs={na}, tape={tname})", case.name), case_json());
                        return;
                    }
                }
                // public share: only the leader's joint-randomness part (index 0) may differ
                if ps_i.len() != ps_j.len() || (ps_i.len() > 32 && ps_i[32..] != ps_j[32..]) {
                    run.fail(&format!("{}/helper_joint_rand_part_depends_on_measurement", case.name), &format!("{}: a helper's joint-randomness part in the public share differs between measurements #{i} and #{j}", case.name), case_json());
                    return;
                }
                // leader: blind unchanged; measurement-share difference = difference of encodings
                match (&sh_i[0], &sh_j[0]) {
                    (Prio3InputShare::Leader { measurement_share: mi, joint_rand_blind: bi, proofs_share: pi }, Prio3InputShare::Leader { measurement_share: mj, joint_rand_blind: bj, proofs_share: pj }) => {
                        if bi != bj {
                            run.fail(&format!("{}/leader_blind_depends_on_measurement", case.name), &format!("{}: leader's joint-randomness blind differs between measurements", case.name), case_json());
                            return;
                        }
                        if mi.len() != enc_i.len() || pi.len() != pj.len() {
                            run.fail(&format!("{}/leader_share_shape", case.name), &format!("{}: leader share has unexpected shape", case.name), case_json());
                            return;
                        }
                        for k in 0..mi.len() {
                            if mi[k] - mj[k] != enc_i[k] - enc_j[k] {
                                run.fail(&format!("{}/leader_mask_depends_on_measurement", case.name), &format!("{}: leader measurement share difference at element {k} is not the difference of the encodings (mask depends on the measurement)", case.name), case_json());
                                return;
                            }
                        }
                    }
                    _ => {
                        run.fail(&format!("{}/leader_variant", case.name), &format!("{}: share 0 is not a Leader share", case.name), case_json());
                        return;
                    }
                }
                for a in 1..na as usize {
                    if !matches!(sh_i[a], Prio3InputShare::Helper { .. }) {
                        run.fail(&format!("{}/helper_variant", case.name), &format!("{}: share {a} is not a Helper share", case.name), case_json());
                        return;
                    }
                }
            }
        }
        run.distinct(fnv(format!("{}/{na}/{np}/{tname}", case.name).as_bytes()));
    });
}

/// A report assembled in ONE buffer (16-byte header, an input share, then the public share appended with
/// `encode`): the bytes of the input share in the assembled report must be exactly its own encoding — the
/// measurement-dependent public share must not leak into (or overwrite) them.
fn assembled_report_ok<S: Encode, P: Encode>(share: &S, ps: &P) -> Result<(), String> {
    let alone = share.get_encoded().map_err(|e| e.to_string())?;
    let ps_alone = ps.get_encoded().map_err(|e| e.to_string())?;
    for header in [16usize, 0, 5] {
        let mut buf = vec![0xEEu8; header];
        share.encode(&mut buf).map_err(|e| e.to_string())?;
        ps.encode(&mut buf).map_err(|e| e.to_string())?;
        if buf.len() != header + alone.len() + ps_alone.len() || buf[header..header + alone.len()] != alone[..] || !buf[..header].iter().all(|b| *b == 0xEE) {
            return Err(format!("with a {header}-byte header, appending the public share changed the bytes of the input share (or the header) already in the buffer"));
        }
        if buf[header + alone.len()..] != ps_alone[..] {
            return Err(format!("with a {header}-byte header, the public share appended after the input share differs from its stand-alone encoding"));
        }
    }
    Ok(())
}

fn poplar(run: &Run, bits: usize, tapes: &[(String, Tape)]) {
    let vdaf: Poplar1<XofTurboShake128, 32> = Poplar1::new(bits);
    let inputs: Vec<Vec<bool>> = if bits <= 5 {
        (0..(1u32 << bits)).map(|v| (0..bits).map(|k| (v >> (bits - 1 - k)) & 1 == 1).collect()).collect()
    } else {
        let mut v: Vec<Vec<bool>> = vec![vec![false; bits], vec![true; bits], (0..bits).map(|i| i % 2 == 0).collect(), (0..bits).map(|i| i == bits - 1).collect(), (0..bits).map(|i| i == 0).collect()];
        v.push((0..bits).map(|i| (i * 7 + 3) % 5 < 2).collect());
        // one-bit departures from the all-zero and from the alternating string at every position (every
        // position of inputs up to 300 bits; byte/block/limb boundaries beyond): a dependence of the key
        // material on any single input bit, byte or 16-byte block shows as a differing pair
        let positions: Vec<usize> = if bits <= 300 { (0..bits).collect() } else { (0..bits).filter(|i| i % 128 < 2 || i % 128 > 125 || *i + 9 > bits).collect() };
        for base in [0usize, 2] {
            for &pos in &positions {
                let mut w = v[base].clone();
                w[pos] = !w[pos];
                v.push(w);
            }
        }
        v.sort();
        v.dedup();
        v
    };
    par::for_each(tapes.len() as u64, |ti| {
        let (tname, tape) = &tapes[ti as usize];
        let ctx: Vec<u8> = tape.bytes(5, (ti % 3) as usize * 11);
        let nonce: [u8; 16] = tape.array(6);
        let random = tape.bytes(7, 32 + 3 * 32);
        let mut sharded = vec![];
        for inp in &inputs {
            match catch(|| vdaf.shard_with_random(&ctx, &IdpfInput::from_bools(inp), &nonce, &random)) {
                Ok(Ok((ps, shares))) => {
                    for (k, sh) in shares.iter().enumerate() {
                        if let Err(e) = assembled_report_ok(sh, &ps) {
                            run.fail(&format!("poplar1/bits={bits}/assembled_report/agg{k}"), &format!("Poplar1(bits={bits}), input {:?} (tape {tname}): report assembled in one buffer, aggregator {k}: {e}", inp), json!({"bits": bits, "agg": k}));
                            return;
                        }
                    }
                    sharded.push((ps.get_encoded().unwrap(), shares[0].get_encoded().unwrap(), shares[1].get_encoded().unwrap()))
                }
                other => {
                    run.fail(&format!("poplar1/bits={bits}/shard"), &format!("Poplar1(bits={bits}): shard failed: {:?}", other.map(|r| r.map(|_| ()).map_err(|e| e.to_string()))), json!({"bits": bits}));
                    return;
                }
            }
        }
        run.count("evaluations", sharded.len() as u64);
        let mut ps_differs = 0u64;
        for i in 0..sharded.len() {
            for j in 0..sharded.len() {
                if i == j {
                    continue;
                }
                run.count("pairs", 1);
                for (a, (x, y)) in [(&sharded[i].1, &sharded[j].1), (&sharded[i].2, &sharded[j].2)].iter().enumerate() {
                    if x != y {
                        run.fail(&format!("poplar1/bits={bits}/input_share_depends_on_measurement/agg{a}"), &format!("Poplar1(bits={bits}): aggregator {a}'s input share differs between inputs {:?} and {:?} under the same randomness and nonce (tape {tname})", inputs[i], inputs[j]), json!({"bits": bits, "tape": tname, "i": i, "j": j}));
                        return;
                    }
                }
                if sharded[i].0 != sharded[j].0 {
                    ps_differs += 1;
                }
            }
        }
        run.count("poplar1_public_share_differs_pairs", ps_differs);
        run.distinct(fnv(format!("poplar1/{bits}/{tname}").as_bytes()));
    });
}

fn main() {
    let run = Run::from_args("C17", Level::Exploration);
    run.rule("all ordered pairs of measurements (full domain when small, else edge set) sharded with identical randomness and nonce, for every instance x aggregators x proofs x tape; compared byte-wise: helpers' Prio3 shares and public-share parts 1.., both Poplar1 input shares must be identical; leader measurement-share difference must equal the difference of encodings; in a report assembled in one buffer (header, input share, public share appended) the input-share bytes must be exactly the share's own encoding. distinct = distinct (instance, aggregators, proofs, tape) groups");
    run.assume("sharding randomness and nonces are a fixed tape alphabet");
    let q = run.quick();
    let tapes = tape_alphabet(run.seed, if q { 3 } else { 20 });
    let aggs: Vec<u8> = if q { vec![2, 3, 5] } else { vec![2, 3, 4, 5, 17, 254] };
    let proofs: Vec<u8> = vec![1, 2];
    run_case(&run, &count_case::<Field64>(), &aggs, &proofs, &tapes);
    run_case(&run, &sum_case::<Field64>(255), &aggs, &proofs, &tapes);
    run_case(&run, &sum_case::<Field64>(20), &aggs, &[1], &tapes);
    run_case(&run, &average_case::<Field128>(9), &aggs, &[1], &tapes);
    run_case(&run, &sumvec_case::<Field128>(2, 3, 2), &aggs, &proofs, &tapes);
    run_case(&run, &sumvec_case::<Field128>(255, 4, 5), &aggs, &[1], &tapes);
    run_case(&run, &histogram_case::<Field128>(7, 3), &aggs, &proofs, &tapes);
    run_case(&run, &multihot_case::<Field128>(4, 2, 3), &aggs, &proofs, &tapes);
    run_case(&run, &l1_case::<Field128>(3, 2, 3), &aggs, &proofs, &tapes);
    // joint-randomness types whose encoded measurement is long (>= 256 elements: any block-wise
    // processing of the share expansion is exercised), measurements differing early and late
    let long_aggs: Vec<u8> = vec![2, 3, 4];
    run_case(&run, &histogram_case::<Field128>(700, 27), &long_aggs, &[1], &tapes[..tapes.len().min(4)]);
    run_case(&run, &sumvec_case::<Field128>(255, 40, 18), &long_aggs, &[1], &tapes[..tapes.len().min(4)]);
    run_case(&run, &multihot_case::<Field128>(300, 7, 20), &[2, 3], &[1], &tapes[..tapes.len().min(3)]);
    run_case(&run, &l1_case::<Field128>(255, 33, 17), &[2, 3], &[1], &tapes[..tapes.len().min(3)]);
    run_case(&run, &sum_case::<Field64>((1 << 63) + 1), &long_aggs, &[1], &tapes[..tapes.len().min(3)]);
    // small fields: every measurement, rejection sampling in the share expansion is frequent
    run_case(&run, &count_case::<FieldV17>(), &[2, 3], &[1], &tapes);
    run_case(&run, &sum_case::<FieldV17>(7), &[2, 3], &[1], &tapes);
    run_case(&run, &histogram_case::<FieldV97>(4, 2), &[2, 3], &[1], &tapes);
    run_case(&run, &sumvec_case::<FieldV97>(2, 2, 2), &[2, 3], &[1], &tapes);
    run_case(&run, &l1_case::<FieldV97>(2, 2, 2), &[2], &[1], &tapes);
    for bits in 1..=if q { 4 } else { 6 } {
        poplar(&run, bits, &tapes);
    }
    for bits in [8usize, 17, 64, 65, 120, 121, 128, 130, 256] {
        poplar(&run, bits, &tapes[..tapes.len().min(4)]);
    }
    for bits in if q { vec![1024usize] } else { vec![1024usize, 4099] } {
        poplar(&run, bits, &tapes[..tapes.len().min(3)]);
    }
    if run.get("poplar1_public_share_differs_pairs") == 0 {
        run.fail("poplar1/vacuous", "Poplar1 public shares never differed across inputs (vacuous comparison)", json!({}));
    }
    run.sample(json!({"case": "Histogram(len=7,chunk=3)@Field128", "aggregators": 5, "proofs": 2, "tape": "counter", "pair": [0, 6]}));
    run.sample(json!({"case": "Poplar1", "bits": 3, "inputs": "all 8 x 8 ordered pairs", "tape": "ff"}));
    run.exhaustive(false);
    run.finish();
}
