//! C04 — Poplar1 robustness: accepted reports contribute a zero or one-hot 0/1 vector.
//!
//! Engine: fault enumeration. (a) A malicious client assembled from public parts only: the real
//! `Idpf::gen` programmed with arbitrary (data, authenticator) values per level, correlated
//! randomness computed by a harness transcription of the specification — honestly for the cheating
//! value, or inconsistently — and input shares assembled through the wire encoding; (b) byte-level
//! tamper enumeration of the public share, both input shares, both rounds of verifier shares and
//! both verifier messages of honest reports. Oracle: whenever both aggregators finish, the sum of
//! their output shares is all-zero or one-hot with value one; cheating strategies are rejected
//! whenever an affected (on-path) candidate is queried.
use prio::codec::{Decode, Encode, ParameterizedDecode};
use prio::field::{Field255, Field64, FieldElement};
use prio::idpf::{Idpf, IdpfInput};
use prio::vdaf::poplar1::{Poplar1, Poplar1AggregationParam, Poplar1IdpfValue, Poplar1InputShare, Poplar1PublicShare};
use prio::vdaf::test_utils::TestVectorClient;
use prio::vdaf::xof::{Xof, XofTurboShake128};
use prio::verif_hooks::idpf::gen_with_random;
use prio::verif_hooks::prng::prng_take;
use pvh::engine::tape::{tape_alphabet, Tape};
use pvh::engine::{fnv, par, Level, Run};
use pvh::kit::vdafkit::{verify_report, Failure, Stage, VerifyOpts};
use serde_json::json;
use std::collections::BTreeMap;
use std::sync::Mutex;

type Pop = Poplar1<XofTurboShake128, 32>;

fn dst(usage: u16) -> [u8; 8] {
    let mut d = [0u8; 8];
    d[0] = 18;
    d[1] = 0;
    d[2..6].copy_from_slice(&6u32.to_be_bytes());
    d[6..8].copy_from_slice(&usage.to_be_bytes());
    d
}

/// Shares of the random offsets (a, b, c) per level as the aggregator derives them.
fn corr_abc<F: FieldElement>(seed: &[u8; 32], usage: u16, ctx: &[u8], agg_id: u8, nonce: &[u8; 16], n: usize) -> Vec<F> {
    let mut xof = XofTurboShake128::init(seed, &[&dst(usage), ctx]);
    xof.update(&[agg_id]);
    xof.update(nonce);
    prng_take::<F, _>(xof.into_seed_stream(), n)
}

fn bits_of(v: u64, n: usize) -> Vec<bool> {
    (0..n).map(|k| (v >> (n - 1 - k)) & 1 == 1).collect()
}

#[derive(Clone, Debug)]
struct Strategy {
    name: String,
    /// programmed data value per level (as small integers; u64::MAX = -1)
    beta: Vec<i64>,
    /// programmed authenticator per level: Consistent = k*beta, Honest = k, Zero, Other
    auth: AuthKind,
    /// perturbation of the correlated randomness: (level, which: 0 = A, 1 = B, delta)
    corr_delta: Option<(usize, usize, u64)>,
    /// the client sets the B shares of every level to sum to zero (instead of a^2+b-ak+c)
    zero_b: bool,
}
#[derive(Clone, Copy, Debug, PartialEq)]
enum AuthKind {
    KTimesBeta,
    K,
    Zero,
    KPlusOne,
}

fn f64v(x: i64) -> Field64 {
    if x >= 0 {
        Field64::from(x as u64)
    } else {
        -Field64::from((-x) as u64)
    }
}
fn f255v(x: i64) -> Field255 {
    if x >= 0 {
        Field255::from(x as u64)
    } else {
        -Field255::from((-x) as u64)
    }
}

struct Crafted {
    ps: Poplar1PublicShare,
    shares: Vec<Poplar1InputShare<32>>,
    keys: [prio::vdaf::xof::Seed<16>; 2],
    /// authenticators the correlated randomness was built for (inner levels)
    k_inner: Vec<Field64>,
}

/// Build a report from public parts. `k` = authenticators used in the correlated randomness.
fn craft(vdaf: &Pop, bits: usize, input: &[bool], st: &Strategy, ctx: &[u8], nonce: &[u8; 16], tape: &Tape) -> Crafted {
    craft_k(vdaf, bits, input, st, ctx, nonce, tape, None)
}

/// As [`craft`]; `k_over = (level, k)` builds the correlated randomness of that inner level for the
/// authenticator `k` instead of the tape's.
#[allow(clippy::too_many_arguments)]
fn craft_k(vdaf: &Pop, bits: usize, input: &[bool], st: &Strategy, ctx: &[u8], nonce: &[u8; 16], tape: &Tape, k_over: Option<(usize, Field64)>) -> Crafted {
    let k_inner: Vec<Field64> = (0..bits - 1).map(|l| Field64::from(u64::from_le_bytes(tape.array::<8>(40 + l as u64)) >> 1)).collect();
    let k_leaf = Field255::from(u64::from_le_bytes(tape.array::<8>(39)));
    let auth64 = |l: usize| match st.auth {
        AuthKind::KTimesBeta => k_inner[l] * f64v(st.beta[l]),
        AuthKind::K => k_inner[l],
        AuthKind::Zero => Field64::from(0),
        AuthKind::KPlusOne => k_inner[l] + Field64::from(1),
    };
    let auth255 = match st.auth {
        AuthKind::KTimesBeta => k_leaf * f255v(st.beta[bits - 1]),
        AuthKind::K => k_leaf,
        AuthKind::Zero => Field255::from(0),
        AuthKind::KPlusOne => k_leaf + Field255::from(1),
    };
    let inner_values: Vec<Poplar1IdpfValue<Field64>> = (0..bits - 1).map(|l| Poplar1IdpfValue::new([f64v(st.beta[l]), auth64(l)])).collect();
    let leaf_value = Poplar1IdpfValue::new([f255v(st.beta[bits - 1]), auth255]);
    let idpf = Idpf::<Poplar1IdpfValue<Field64>, Poplar1IdpfValue<Field255>>::new((), ());
    let random = [tape.array::<16>(31), tape.array::<16>(32)];
    let (ps, keys) = gen_with_random(&idpf, &IdpfInput::from_bools(input), inner_values, leaf_value, ctx, nonce, &random).expect("gen");
    let seeds = [tape.array::<32>(33), tape.array::<32>(34)];
    // a, b, c per level = sum of the two aggregators' shares
    let abc_inner: Vec<Vec<Field64>> = (0..2).map(|a| corr_abc::<Field64>(&seeds[a], 2, ctx, a as u8, nonce, 3 * (bits - 1))).collect();
    let abc_leaf: Vec<Vec<Field255>> = (0..2).map(|a| corr_abc::<Field255>(&seeds[a], 3, ctx, a as u8, nonce, 3)).collect();
    let mut corr_inner: [Vec<[Field64; 2]>; 2] = [vec![], vec![]];
    for l in 0..bits - 1 {
        let a = abc_inner[0][3 * l] + abc_inner[1][3 * l];
        let b = abc_inner[0][3 * l + 1] + abc_inner[1][3 * l + 1];
        let c = abc_inner[0][3 * l + 2] + abc_inner[1][3 * l + 2];
        let k = match k_over {
            Some((lv, kk)) if lv == l => kk,
            _ => k_inner[l],
        };
        let mut big_a = -(Field64::from(2) * a) + k;
        let mut big_b = if st.zero_b { Field64::from(0) } else { a * a + b - a * k + c };
        if let Some((lv, which, d)) = st.corr_delta {
            if lv == l {
                if which == 0 {
                    big_a += Field64::from(d);
                } else {
                    big_b += Field64::from(d);
                }
            }
        }
        let c1 = [Field64::from(u64::from_le_bytes(tape.array::<8>(60 + l as u64)) >> 2), Field64::from(u64::from_le_bytes(tape.array::<8>(160 + l as u64)) >> 2)];
        corr_inner[0].push([big_a - c1[0], big_b - c1[1]]);
        corr_inner[1].push(c1);
    }
    let a = abc_leaf[0][0] + abc_leaf[1][0];
    let b = abc_leaf[0][1] + abc_leaf[1][1];
    let c = abc_leaf[0][2] + abc_leaf[1][2];
    let mut big_a = -(Field255::from(2) * a) + k_leaf;
    let mut big_b = if st.zero_b { Field255::from(0) } else { a * a + b - a * k_leaf + c };
    if let Some((lv, which, d)) = st.corr_delta {
        if lv == bits - 1 {
            if which == 0 {
                big_a += Field255::from(d);
            } else {
                big_b += Field255::from(d);
            }
        }
    }
    let l1 = [Field255::from(u64::from_le_bytes(tape.array::<8>(35))), Field255::from(u64::from_le_bytes(tape.array::<8>(36)))];
    let corr_leaf = [[big_a - l1[0], big_b - l1[1]], l1];
    // assemble input shares through the wire format
    let mut shares = vec![];
    for a in 0..2 {
        let mut b = keys[a].get_encoded().unwrap();
        b.extend_from_slice(&seeds[a]);
        for c in &corr_inner[a] {
            b.extend(c[0].get_encoded().unwrap());
            b.extend(c[1].get_encoded().unwrap());
        }
        b.extend(corr_leaf[a][0].get_encoded().unwrap());
        b.extend(corr_leaf[a][1].get_encoded().unwrap());
        shares.push(Poplar1InputShare::<32>::get_decoded_with_param(&(vdaf, a), &b).expect("crafted input share must decode"));
    }
    Crafted { ps, shares, keys, k_inner }
}

/// Sum of the two output shares as small integers (None = some entry is not 0/1-representable).
fn out_sum(level_is_leaf: bool, outs: &[Vec<u8>]) -> Vec<Option<u64>> {
    let size = if level_is_leaf { 32 } else { 8 };
    let n = outs[0].len() / size;
    (0..n)
        .map(|i| {
            if level_is_leaf {
                let a = Field255::get_decoded(&outs[0][i * 32..(i + 1) * 32]).unwrap();
                let b = Field255::get_decoded(&outs[1][i * 32..(i + 1) * 32]).unwrap();
                u64::try_from(a + b).ok()
            } else {
                let a = Field64::get_decoded(&outs[0][i * 8..(i + 1) * 8]).unwrap();
                let b = Field64::get_decoded(&outs[1][i * 8..(i + 1) * 8]).unwrap();
                Some(u64::from(a + b))
            }
        })
        .collect()
}

fn valid_output(sum: &[Option<u64>]) -> bool {
    sum.iter().all(|v| matches!(v, Some(0) | Some(1))) && sum.iter().filter(|v| **v == Some(1)).count() <= 1
}

fn params_for(bits: usize, input: &[bool], all: bool) -> Vec<(usize, Vec<Vec<bool>>)> {
    let mut out = vec![];
    for level in 0..bits {
        if all && level <= 2 {
            let n = 1usize << (level + 1);
            let pf: Vec<Vec<bool>> = (0..n as u64).map(|v| bits_of(v, level + 1)).collect();
            for mask in 1u64..(1u64 << n) {
                if n > 4 && mask.count_ones() > 2 && mask != (1u64 << n) - 1 {
                    continue;
                }
                out.push((level, (0..n).filter(|i| (mask >> i) & 1 == 1).map(|i| pf[i].clone()).collect()));
            }
        } else {
            let on = input[..=level].to_vec();
            let mut sib = on.clone();
            sib[level] = !sib[level];
            let mut both = vec![on.clone(), sib.clone()];
            both.sort();
            out.push((level, vec![on.clone()]));
            out.push((level, vec![sib]));
            out.push((level, both));
            // every prefix of the level as candidate (up to 64): the on-path candidate sits at the index given
            // by the input, far from the start of the list for inputs with leading ones
            if level >= 3 && level <= 5 {
                let n = 1usize << (level + 1);
                out.push((level, (0..n as u64).map(|v| bits_of(v, level + 1)).collect()));
            }
        }
    }
    out
}

/// (d) A client that makes TWO candidates non-zero. Built from public parts only: an honest key pair,
/// then one control-bit correction of the public share is flipped at level `j` (the sibling subtree of
/// the input's path stops cancelling), and the data correction word of the queried level is solved —
/// using the real evaluation as a black box, which is affine in that word — so that the values of the
/// on-path candidate and of one candidate G of the broken subtree add up to one; the correlated
/// randomness is built for the sum of their authenticators. Every other listed candidate is zero.
/// A sound sketch (independent coefficient per candidate) rejects; a sketch whose coefficients repeat
/// with some period accepts when the two candidates are that far apart, so the distance is swept.
fn two_nonzero(run: &Run, tapes: &[(String, Tape)], q: bool) {
    let idpf = Idpf::<Poplar1IdpfValue<Field64>, Poplar1IdpfValue<Field255>>::new((), ());
    let honest = |bits: usize| Strategy { name: "two non-zero candidates".into(), beta: vec![1; bits], auth: AuthKind::K, corr_delta: None, zero_b: false };
    let eval_sum = |ps: &Poplar1PublicShare, keys: &[prio::vdaf::xof::Seed<16>; 2], node: &[bool], ctx: &[u8], nonce: &[u8; 16]| -> Option<[Field64; 2]> {
        let mut acc = [Field64::from(0); 2];
        for a in 0..2 {
            let o = idpf.eval(a, ps, &keys[a], &IdpfInput::from_bools(node), ctx, nonce, &mut prio::idpf::NoCache::new()).ok()?;
            let v = match o {
                prio::idpf::IdpfOutputShare::Inner(v) => v,
                _ => return None,
            };
            let b = v.get_encoded().ok()?;
            acc[0] += Field64::get_decoded(&b[..8]).ok()?;
            acc[1] += Field64::get_decoded(&b[8..16]).ok()?;
        }
        Some(acc)
    };
    let bits = 9usize;
    let vdaf = Pop::new(bits);
    let level = 7usize; // inner level with 256 nodes
    let ctrl_len = (2 * bits).div_ceil(8);
    let w_off = ctrl_len + 16 * bits + 16 * level; // data coordinate of the level's value correction word
    let mut items = vec![];
    let dists: Vec<usize> = if q { vec![1, 2, 32, 63, 64, 65, 128] } else { (1..=128).collect() };
    for (ti, _) in tapes.iter().enumerate() {
        for j in [0usize, 1] {
            for &d in &dists {
                if j == 1 && d > 64 {
                    continue;
                }
                items.push((ti, j, d));
            }
        }
    }
    par::for_each(items.len() as u64, |ix| {
        let (ti, j, dist) = items[ix as usize];
        let (tn, tape) = &tapes[ti];
        let input = vec![false; bits];
        let ctx: Vec<u8> = tape.bytes(1, 5);
        let nonce: [u8; 16] = tape.array(2);
        let vk: [u8; 32] = tape.array(3);
        let rep0 = craft(&vdaf, bits, &input, &honest(bits), &ctx, &nonce, tape);
        let mut ps_bytes = rep0.ps.get_encoded().unwrap();
        let bit = 2 * j + 1; // correction of the right child's control bit at level j (the path goes left)
        ps_bytes[bit / 8] ^= 1 << (bit % 8);
        let on: Vec<bool> = input[..=level].to_vec();
        // candidates G in the broken subtree: prefix input[..j] + [1] + anything
        let mut built = None;
        for g_tail in 0..8u64 {
            let mut g: Vec<bool> = input[..j].to_vec();
            g.push(true);
            g.extend(bits_of(g_tail, level - j));
            let at = |delta: u64| -> Option<([Field64; 2], [Field64; 2], Vec<u8>)> {
                let mut b = ps_bytes.clone();
                let w = Field64::get_decoded(&b[w_off..w_off + 8]).ok()? + Field64::from(delta);
                b[w_off..w_off + 8].copy_from_slice(&w.get_encoded().ok()?);
                let ps = Poplar1PublicShare::get_decoded_with_param(&vdaf, &b).ok()?;
                Some((eval_sum(&ps, &rep0.keys, &on, &ctx, &nonce)?, eval_sum(&ps, &rep0.keys, &g, &ctx, &nonce)?, b))
            };
            let (Some((on0, g0, _)), Some((on1, g1, _))) = (at(0), at(1)) else { continue };
            let slope = (on1[0] - on0[0]) + (g1[0] - g0[0]);
            if slope == Field64::from(0) || g0[0] == Field64::from(0) {
                continue;
            }
            let delta = (Field64::from(1) - on0[0] - g0[0]) * slope.inv();
            let Some((onf, gf, bytes)) = at(u64::from(delta)) else { continue };
            if onf[0] + gf[0] != Field64::from(1) || gf[0] == Field64::from(0) {
                continue;
            }
            built = Some((g, onf, gf, bytes));
            break;
        }
        let Some((g, onf, gf, bytes)) = built else {
            run.count("two_nonzero_not_constructible", 1);
            return;
        };
        // fillers: the dist-1 nodes following the on-path node (same side of level j, off the path: zero)
        let mut set: Vec<Vec<bool>> = vec![on.clone()];
        for f in 1..dist as u64 {
            set.push(bits_of(f, level + 1));
        }
        set.push(g.clone());
        let ps = Poplar1PublicShare::get_decoded_with_param(&vdaf, &bytes).unwrap();
        if set[1..set.len() - 1].iter().any(|f| eval_sum(&ps, &rep0.keys, f, &ctx, &nonce) != Some([Field64::from(0); 2])) {
            run.count("two_nonzero_not_constructible", 1);
            return;
        }
        let rep = craft_k(&vdaf, bits, &input, &honest(bits), &ctx, &nonce, tape, Some((level, onf[1] + gf[1])));
        let ap = Poplar1AggregationParam::try_from_prefixes(set.iter().map(|p| IdpfInput::from_bools(p)).collect()).unwrap();
        run.count("evaluations", 1);
        run.count("two_nonzero_reports", 1);
        match verify_report::<Pop, 32>(&vdaf, &vk, &ctx, &ap, &nonce, &ps, &rep.shares, &VerifyOpts::wire()) {
            Ok((_, tr)) => {
                let sum = out_sum(false, &tr.output_shares);
                if !valid_output(&sum) {
                    run.fail(&format!("d/two_nonzero/flip_level={j}/distance={dist}"), &format!("Poplar1(bits={bits}): a report whose candidates #0 and #{dist} of {} at level {level} are both non-zero (values {} and {}, summing to one; control bit flipped at level {j}) was accepted by both aggregators (tape {tn})", set.len(), u64::from(onf[0]), u64::from(gf[0])), json!({"layer": "d", "bits": bits, "level": level, "flip_level": j, "distance": dist, "tape": tn}));
                }
            }
            Err(Failure { stage, msg }) => {
                if let Stage::Panic(w) = &stage {
                    run.fail("d/two_nonzero/panic", &format!("Poplar1(bits={bits}): two-candidate report made {w} panic: {msg}"), json!({"layer": "d", "flip_level": j, "distance": dist, "tape": tn}));
                }
            }
        }
        run.distinct(fnv(format!("d/{j}/{dist}/{tn}").as_bytes()));
        let _ = rep0.k_inner.len();
    });
}

/// (e) Ill-shaped verifier shares handed to the combiner AS OBJECTS (the public enum `Poplar1FieldVec` lets an
/// application build shares of any length; the byte decoders never would): for a cheating report, both round-one
/// or both round-two verifier shares are replaced by vectors of 0, 1, 2, 3 or 4 zeros (or the genuine shares
/// truncated / extended by a zero) before `verifier_shares_to_message`; whenever both aggregators then finish, the
/// output must still be zero / one-hot 1.
fn typed_shapes(run: &Run, vdaf: &Pop, bits: usize, input: &[bool], st: &Strategy, rep: &Crafted, ctx: &[u8], nonce: &[u8; 16], vk: &[u8; 32]) {
    use prio::vdaf::poplar1::Poplar1FieldVec;
    use prio::vdaf::{Aggregator, VerifyTransition};
    let level = (0..bits).find(|l| st.beta[*l] != 1).unwrap_or(0);
    let leaf = level == bits - 1;
    let ap = Poplar1AggregationParam::try_from_prefixes(vec![IdpfInput::from_bools(&input[..=level])]).unwrap();
    let zeros = |n: usize| if leaf { Poplar1FieldVec::Leaf(vec![Field255::zero(); n]) } else { Poplar1FieldVec::Inner(vec![Field64::zero(); n]) };
    let reshape = |v: &Poplar1FieldVec, how: &str| -> Poplar1FieldVec {
        match v {
            Poplar1FieldVec::Inner(x) => {
                let mut x = x.clone();
                if how == "drop_last" { x.pop(); } else { x.push(Field64::zero()); }
                Poplar1FieldVec::Inner(x)
            }
            Poplar1FieldVec::Leaf(x) => {
                let mut x = x.clone();
                if how == "drop_last" { x.pop(); } else { x.push(Field255::zero()); }
                Poplar1FieldVec::Leaf(x)
            }
        }
    };
    for round in 0..2usize {
        for shape in ["zeros(0)", "zeros(1)", "zeros(2)", "zeros(3)", "zeros(4)", "drop_last", "push_zero"] {
            run.count("evaluations", 1);
            run.count("typed_shape_alterations", 1);
            let r = pvh::engine::catch(|| -> Option<Vec<Vec<u8>>> {
                let mut states = vec![];
                let mut shares = vec![];
                for a in 0..2 {
                    let (s, v) = vdaf.verify_init(vk, ctx, a, &ap, nonce, &rep.ps, &rep.shares[a]).ok()?;
                    states.push(s);
                    shares.push(v);
                }
                let alter = |v: &Vec<Poplar1FieldVec>| -> Vec<Poplar1FieldVec> {
                    v.iter().map(|x| if let Some(n) = shape.strip_prefix("zeros(") { zeros(n.trim_end_matches(')').parse().unwrap()) } else { reshape(x, shape) }).collect()
                };
                let in0 = if round == 0 { alter(&shares) } else { shares.clone() };
                let m0 = vdaf.verifier_shares_to_message(ctx, &ap, in0).ok()?;
                let mut outs = vec![];
                let mut st2 = vec![];
                let mut sh2 = vec![];
                for s in states {
                    match vdaf.verify_next(ctx, s, m0.clone()).ok()? {
                        VerifyTransition::Continue(s, v) => {
                            st2.push(s);
                            sh2.push(v);
                        }
                        VerifyTransition::Finish(o) => outs.push(o.get_encoded().ok()?),
                    }
                }
                if outs.len() == 2 {
                    return Some(outs);
                }
                if st2.len() != 2 {
                    return None;
                }
                let in1 = if round == 1 { alter(&sh2) } else { sh2.clone() };
                let m1 = vdaf.verifier_shares_to_message(ctx, &ap, in1).ok()?;
                for s in st2 {
                    match vdaf.verify_next(ctx, s, m1.clone()).ok()? {
                        VerifyTransition::Finish(o) => outs.push(o.get_encoded().ok()?),
                        VerifyTransition::Continue(..) => return None,
                    }
                }
                (outs.len() == 2).then_some(outs)
            });
            match r {
                Ok(Some(outs)) => {
                    let sum = out_sum(leaf, &outs);
                    // both round-two shares replaced by a single zero is the recorded protocol-level finding (zero_fill)
                    if !valid_output(&sum) {
                        let key = if round == 1 && shape == "zeros(1)" { format!("c/invalid_output/verifier_share/round=1/agg=both/zero_fill/bits={bits}") } else { format!("e/typed_shape/round={round}/{shape}/bits={bits}") };
                        run.fail(&key, &format!("Poplar1(bits={bits}): cheating strategy '{}' on input {:?} with both round-{} verifier shares replaced (as objects) by {shape}: both aggregators finished at level {level} with output sum {:?}", st.name, input, round + 1, sum), json!({"layer": "e", "bits": bits, "input": input, "strategy": st.name, "level": level, "round": round, "shape": shape}));
                    }
                }
                Ok(None) => {}
                Err(m) => run.fail(&format!("e/typed_shape/panic/round={round}/{shape}"), &format!("Poplar1(bits={bits}): verifier shares of shape {shape} in round {} made the library panic: {m}", round + 1), json!({"layer": "e", "bits": bits, "round": round, "shape": shape})),
            }
        }
    }
}

/// (f) Generic over the XOF / seed size (the 32-byte TurboSHAKE128 instance and `Poplar1<XofFixedKeyAes128, 16>`):
/// after honest sharding the DATA element of the value correction word of the queried level is shifted by delta
/// in the public share, so the on-path candidate carries 1 + delta (authenticator unchanged); the aggregation
/// parameter lists EVERY prefix of the level (16, 32 or 64 candidates), so the altered candidate sits wherever
/// the input puts it — also far down the list, where sketch coefficients drawn late from the verification
/// randomness matter. Both aggregators must not finish with an invalid output.
fn shifted_value_all_candidates<P, const S: usize>(run: &Run, pname: &str, tape: &Tape)
where
    P: Xof<S> + Send + Sync + 'static,
{
    use prio::codec::Encode as _;
    for bits in [5usize, 6] {
        let vdaf: Poplar1<P, S> = Poplar1::new(bits);
        for input_v in [(1u64 << bits) - 1, 0b10110 & ((1 << bits) - 1), 0, 17] {
            let input = bits_of(input_v, bits);
            let ctx = b"c04 shift".to_vec();
            let nonce: [u8; 16] = tape.array(80);
            let vk: [u8; S] = tape.array(81);
            let (ps, shares) = match pvh::engine::catch(|| vdaf.shard_with_random(&ctx, &IdpfInput::from_bools(&input), &nonce, &tape.bytes(82, 32 + 3 * S))) {
                Ok(Ok(x)) => x,
                other => {
                    run.fail(&format!("f/{pname}/shard"), &format!("Poplar1<{pname}>(bits={bits}): honest sharding failed: {:?}", other.map(|r| r.map(|_| ()).map_err(|e| e.to_string()))), json!({"bits": bits}));
                    return;
                }
            };
            for level in [3usize, bits - 2, bits - 1] {
                let leaf = level == bits - 1;
                let n = 1usize << (level + 1);
                let ap = Poplar1AggregationParam::try_from_prefixes((0..n as u64).map(|v| IdpfInput::from_bools(&bits_of(v, level + 1))).collect()).unwrap();
                // layout of the encoded public share: packed control bits, `bits` 16-byte seeds, (bits-1) inner value
                // correction words of 2 x 8 bytes, one leaf correction word of 2 x 32 bytes
                let off = bits.div_ceil(4) + 16 * bits + 16 * level.min(bits - 1);
                for delta in [0u64, 1, 5, u64::MAX] {
                    let tam = |kind: &str, _round: usize, _agg: usize, bytes: &[u8]| -> Option<Vec<u8>> {
                        if kind != "public_share" || delta == 0 {
                            return None;
                        }
                        let mut o = bytes.to_vec();
                        if leaf {
                            let x = Field255::get_decoded(&o[off..off + 32]).ok()?;
                            let d = if delta == u64::MAX { -Field255::one() } else { Field255::from(delta) };
                            o[off..off + 32].copy_from_slice(&(x + d).get_encoded().ok()?);
                        } else {
                            let x = Field64::get_decoded(&o[off..off + 8]).ok()?;
                            let d = if delta == u64::MAX { -Field64::one() } else { Field64::from(delta) };
                            o[off..off + 8].copy_from_slice(&(x + d).get_encoded().ok()?);
                        }
                        Some(o)
                    };
                    run.count("evaluations", 1);
                    run.count("shifted_value_cases", 1);
                    let res = verify_report::<Poplar1<P, S>, S>(&vdaf, &vk, &ctx, &ap, &nonce, &ps, &shares, &VerifyOpts::tamper(&tam));
                    let case = || json!({"layer": "f", "xof": pname, "bits": bits, "input": input, "level": level, "candidates": n, "delta": if delta == u64::MAX { "-1".to_string() } else { delta.to_string() }});
                    match res {
                        Ok((_, tr)) => {
                            let sum = out_sum(leaf, &tr.output_shares);
                            if !valid_output(&sum) {
                                run.fail(&format!("f/{pname}/invalid_output/level={}", if leaf { "leaf" } else { "inner" }), &format!("Poplar1<{pname}>(bits={bits}): value correction word of level {level} shifted by {} after honest sharding (on-path candidate is #{} of {n}): both aggregators finished with an output that is not zero / one-hot 1", if delta == u64::MAX { "-1".to_string() } else { delta.to_string() }, input_v >> (bits - 1 - level)), case());
                                return;
                            }
                            if delta == 0 {
                                let want: Vec<Option<u64>> = (0..n as u64).map(|v| Some((v == input_v >> (bits - 1 - level)) as u64)).collect();
                                if sum != want {
                                    run.fail(&format!("f/{pname}/honest_output"), &format!("Poplar1<{pname}>(bits={bits}): honest report, all {n} prefixes of level {level}: wrong output"), case());
                                }
                            }
                        }
                        Err(Failure { stage, msg }) => {
                            if delta == 0 {
                                run.fail(&format!("f/{pname}/honest_rejected"), &format!("Poplar1<{pname}>(bits={bits}): honest report rejected with all {n} prefixes of level {level} as candidates at {:?}: {msg}", stage), case());
                                return;
                            }
                            if let Stage::Panic(w) = &stage {
                                run.fail(&format!("f/{pname}/panic"), &format!("Poplar1<{pname}>(bits={bits}): shifted correction word made {w} panic: {msg}"), case());
                            }
                        }
                    }
                }
            }
        }
        run.distinct(fnv(format!("f/{pname}/{bits}").as_bytes()));
    }
}

fn main() {
    let run = Run::from_args("C04", Level::FaultEnumeration);
    run.rule("(a) malicious client from public parts: programmed data beta in {0,1,2,-1,3} at one level (others honest), authenticator in {k*beta, k, 0, k+1}, correlated randomness honest for the cheating value or perturbed (A or B at one level), x inputs x every aggregation parameter (bits<=3; on-path/sibling sets beyond) x key tapes; (d) two non-zero candidates adding up to one (control-bit correction flipped at level 0/1, data correction word of level 7 solved from black-box evaluations, correlated randomness for the summed authenticators), placed 1..128 positions apart in the candidate list; (e) for cheating reports, both verifier shares of a round replaced AS OBJECTS by vectors of 0..4 zeros or the genuine ones shortened/extended (shapes the byte decoders never produce); (f) for Poplar1 over both shipped XOF instantiations (32-byte TurboSHAKE128, 16-byte fixed-key AES): the value correction word of the queried level shifted by 1, 5, -1 after honest sharding with EVERY prefix of the level (16/32/64) as candidate; (b) honest reports: every byte of public share, both input shares, both rounds of verifier shares and verifier messages x alteration alphabet; oracle: both finish => outputs sum to zero-vector or one-hot 1; cheating strategies rejected whenever an on-path candidate is queried. distinct = (strategy, bits, input, parameter, tape) and distinct alterations; non-trivial = reached verify_init at both aggregators");
    run.assume("soundness over the verification key is a fixed alphabet of keys (a cheating report passing by chance has probability <= 2/2^64 per key at inner levels)");
    let q = run.quick();
    let tapes: Vec<(String, Tape)> = tape_alphabet(run.seed, if q { 4 } else { 8 }).into_iter().skip(2).collect();
    let by_stage: Mutex<BTreeMap<String, u64>> = Mutex::new(BTreeMap::new());
    let tally = |s: &str| *by_stage.lock().unwrap().entry(s.to_string()).or_insert(0) += 1;

    // ---------------- (a) strategies
    for bits in [1usize, 2, 3, 5, 8] {
        if q && bits == 8 {
            // fewer strategies below
        }
        let vdaf = Pop::new(bits);
        let mut strategies: Vec<Strategy> = vec![];
        let honest_beta = vec![1i64; bits];
        strategies.push(Strategy { name: "honest(beta=1,auth=k)".into(), beta: honest_beta.clone(), auth: AuthKind::K, corr_delta: None, zero_b: false });
        strategies.push(Strategy { name: "all-zero(beta=0,auth=0)".into(), beta: vec![0; bits], auth: AuthKind::KTimesBeta, corr_delta: None, zero_b: false });
        let levels: Vec<usize> = if bits <= 3 { (0..bits).collect() } else { vec![0, bits / 2, bits - 1] };
        for &lv in &levels {
            for beta in [0i64, 2, -1, 3] {
                for auth in [AuthKind::KTimesBeta, AuthKind::K, AuthKind::Zero, AuthKind::KPlusOne] {
                    let mut b = honest_beta.clone();
                    b[lv] = beta;
                    strategies.push(Strategy { name: format!("beta[{lv}]={beta},auth={:?}", auth), beta: b, auth, corr_delta: None, zero_b: false });
                }
            }
            for auth in [AuthKind::Zero, AuthKind::KPlusOne] {
                strategies.push(Strategy { name: format!("beta=1,auth={:?}", auth), beta: honest_beta.clone(), auth, corr_delta: None, zero_b: false });
            }
            for which in 0..2 {
                for d in [1u64, u64::MAX >> 1] {
                    strategies.push(Strategy { name: format!("honest values, corr[{lv}].{}+={d}", ["A", "B"][which]), beta: honest_beta.clone(), auth: AuthKind::K, corr_delta: Some((lv, which, d)), zero_b: false });
                }
            }
        }
        let inputs: Vec<Vec<bool>> = if bits <= 3 { (0..(1u64 << bits)).map(|v| bits_of(v, bits)).collect() } else { vec![bits_of(0xA5 & ((1 << bits) - 1), bits), bits_of(0, bits), bits_of((1 << bits) - 1, bits)] };
        let (ns, ni, nt) = (strategies.len(), inputs.len(), tapes.len());
        let items: Vec<(usize, usize, usize)> = (0..ns).flat_map(|s| (0..ni).flat_map(move |i| (0..nt).map(move |t| (s, i, t)))).collect();
        par::for_each(items.len() as u64, |ix| {
            let (si, ii, ti) = items[ix as usize];
            let st = &strategies[si];
            let input = &inputs[ii];
            let (tn, tape) = &tapes[ti];
            let ctx: Vec<u8> = tape.bytes(1, 5);
            let nonce: [u8; 16] = tape.array(2);
            let vk: [u8; 32] = tape.array(3);
            let rep = craft(&vdaf, bits, input, st, &ctx, &nonce, tape);
            for (level, set) in params_for(bits, input, bits <= 3) {
                let ap = Poplar1AggregationParam::try_from_prefixes(set.iter().map(|p| IdpfInput::from_bools(p)).collect()).unwrap();
                let on_path_queried = set.iter().any(|p| input[..=level] == p[..]);
                run.count("evaluations", 1);
                let res = verify_report::<Pop, 32>(&vdaf, &vk, &ctx, &ap, &nonce, &rep.ps, &rep.shares, &VerifyOpts::wire());
                let case = || json!({"layer": "a", "bits": bits, "input": input, "strategy": st.name, "level": level, "prefixes": set, "tape": tn});
                // what the specification's sketch admits at this level: beta in {0,1} and auth = k*beta, randomness consistent
                let beta_l = st.beta[level];
                let auth_ok = match st.auth {
                    AuthKind::KTimesBeta => true,
                    AuthKind::K => beta_l == 1,
                    AuthKind::Zero => beta_l == 0,
                    AuthKind::KPlusOne => false,
                };
                let corr_ok = st.corr_delta.map(|(lv, _, _)| lv != level).unwrap_or(true);
                let spec_accepts = (beta_l == 0 || beta_l == 1) && auth_ok && corr_ok;
                match res {
                    Ok((_, tr)) => {
                        tally("a:accepted");
                        let sum = out_sum(level == bits - 1, &tr.output_shares);
                        if !valid_output(&sum) {
                            run.fail(&format!("a/bits={bits}/invalid_output/{}", st.name.split(',').next().unwrap_or("")), &format!("Poplar1(bits={bits}): strategy '{}' on input {:?}: both aggregators finished at level {level} for prefixes {:?} with output sum {:?} (not zero / one-hot 1)", st.name, input, set, sum), case());
                            return;
                        }
                        if on_path_queried && !spec_accepts {
                            run.fail(&format!("a/bits={bits}/cheat_accepted/{}", st.name.split('[').next().unwrap_or("")), &format!("Poplar1(bits={bits}): cheating strategy '{}' accepted although the on-path candidate was queried at level {level} (prefixes {:?})", st.name, set), case());
                            return;
                        }
                        // the all-one-hot expectation for the honest strategy (transcription conformance)
                        if si == 0 {
                            let want: Vec<Option<u64>> = set.iter().map(|p| Some((input[..=level] == p[..]) as u64)).collect();
                            if sum != want {
                                run.fail(&format!("a/bits={bits}/honest_crafted_output"), &format!("Poplar1(bits={bits}): honestly crafted report gives {:?}, expected {:?}", sum, want), case());
                            }
                        }
                    }
                    Err(Failure { stage, msg }) => {
                        if let Stage::Panic(w) = &stage {
                            run.fail(&format!("a/bits={bits}/panic/{}", w.split('[').next().unwrap_or("")), &format!("Poplar1(bits={bits}): strategy '{}' made {w} panic: {msg}", st.name), case());
                            return;
                        }
                        tally(&format!("a:rejected:{:?}", std::mem::discriminant(&stage)));
                        if si <= 1 {
                            // The harness's own honest / all-zero reports should verify (this binds the
                            // transcription to the code). If they do not, completeness is broken (C03's
                            // claim) or the derivations changed: robustness is then not violated, so no
                            // alarm here — the loss of power is recorded in the evidence.
                            run.count("transcription_conformance_failures", 1);
                        }
                    }
                }
            }
            // (c) the same cheating report with STRUCTURAL alterations of the sketch messages in transit
            // (truncation to empty / by one element, zero-filling, for every message of both rounds):
            // if both aggregators finish, the output must still be zero / one-hot 1.
            if si >= 2 && ti == 0 && st.corr_delta.is_none() {
                let level = (0..bits).find(|l| st.beta[*l] != 1).unwrap_or(0);
                let on = input[..=level].to_vec();
                let ap = Poplar1AggregationParam::try_from_prefixes(vec![IdpfInput::from_bools(&on)]).unwrap();
                const BOTH: usize = usize::MAX; // the same alteration applied to both aggregators' shares
                let kinds: [(&str, usize, usize); 8] = [("verifier_share", 0, 0), ("verifier_share", 0, 1), ("verifier_share", 0, BOTH), ("verifier_message", 0, 0), ("verifier_share", 1, 0), ("verifier_share", 1, 1), ("verifier_share", 1, BOTH), ("verifier_message", 1, 0)];
                for (k, r, a) in kinds {
                    for how in ["empty", "drop_last_element", "zero_fill"] {
                        let tam = |kind: &str, round: usize, agg: usize, bytes: &[u8]| -> Option<Vec<u8>> {
                            if kind == k && round == r && (agg == a || a == BOTH || kind == "verifier_message") {
                                let esz = if level == bits - 1 { 32 } else { 8 };
                                Some(match how {
                                    "empty" => vec![],
                                    "drop_last_element" => bytes[..bytes.len().saturating_sub(esz)].to_vec(),
                                    _ => vec![0u8; bytes.len()],
                                })
                            } else {
                                None
                            }
                        };
                        run.count("evaluations", 1);
                        run.count("structural_alterations", 1);
                        if let Ok((_, tr)) = verify_report::<Pop, 32>(&vdaf, &vk, &ctx, &ap, &nonce, &rep.ps, &rep.shares, &VerifyOpts::tamper(&tam)) {
                            let sum = out_sum(level == bits - 1, &tr.output_shares);
                            if !valid_output(&sum) {
                                let who = if a == BOTH { "both".to_string() } else { a.to_string() };
                                run.fail(&format!("c/invalid_output/{k}/round={r}/agg={who}/{how}/bits={bits}"), &format!("Poplar1(bits={bits}): cheating strategy '{}' on input {:?} combined with {k}[round {r}, agg {who}] {how}: both aggregators finished at level {level} with output sum {:?}", st.name, input, sum), json!({"layer": "c", "bits": bits, "input": input, "strategy": st.name, "level": level, "message": k, "round": r, "agg": who, "how": how}));
                                continue;
                            }
                        }
                    }
                }
            }
            if si >= 2 && ti == 0 && st.corr_delta.is_none() && ii < 2 {
                typed_shapes(&run, &vdaf, bits, input, st, &rep, &ctx, &nonce, &vk);
            }
            run.distinct(fnv(format!("a/{bits}/{si}/{ii}/{tn}").as_bytes()));
        });
        eprintln!("[{:.1}s] strategies bits={bits} ({} strategies)", run.elapsed(), strategies.len());
    }

    // ---------------- protocol-level scenario (known finding): a colluding client and network
    // attacker. The client programs value 5 and chooses its B shares to sum to zero; the combined
    // round-one sketch message is replaced by zeros in transit for both aggregators.
    {
        let bits = 3usize;
        let vdaf = Pop::new(bits);
        let (tn, tape) = &tapes[0];
        let input = bits_of(0b101, bits);
        let ctx: Vec<u8> = tape.bytes(1, 5);
        let nonce: [u8; 16] = tape.array(2);
        let vk: [u8; 32] = tape.array(3);
        let st = Strategy { name: "beta=5 at every level, B shares sum to zero".into(), beta: vec![5; bits], auth: AuthKind::KTimesBeta, corr_delta: None, zero_b: true };
        let rep = craft(&vdaf, bits, &input, &st, &ctx, &nonce, tape);
        let level = 1usize;
        let ap = Poplar1AggregationParam::try_from_prefixes(vec![IdpfInput::from_bools(&input[..=level])]).unwrap();
        let tam = |kind: &str, round: usize, _agg: usize, bytes: &[u8]| -> Option<Vec<u8>> { if kind == "verifier_message" && round == 0 { Some(vec![0u8; bytes.len()]) } else { None } };
        run.count("evaluations", 1);
        if let Ok((_, tr)) = verify_report::<Pop, 32>(&vdaf, &vk, &ctx, &ap, &nonce, &rep.ps, &rep.shares, &VerifyOpts::tamper(&tam)) {
            let sum = out_sum(false, &tr.output_shares);
            if !valid_output(&sum) {
                run.fail("protocol/zeroed_round_one_message_with_zero_B_shares", &format!("Poplar1(bits={bits}): a client that programs value 5 and sets its B shares to sum to zero, combined with the round-one sketch message zeroed in transit, is accepted by both aggregators: output sum {:?} (tape {tn})", sum), json!({"bits": bits, "input": input, "level": level}));
            }
        }
    }

    // ---------------- (d) two non-zero candidates
    two_nonzero(&run, &tapes, q);
    eprintln!("[{:.1}s] two non-zero candidates", run.elapsed());

    // ---------------- (b) tampering after honest sharding
    for (bits, level) in [(2usize, 0usize), (2, 1), (3, 1), (3, 2), (8, 4), (8, 7)] {
        let vdaf = Pop::new(bits);
        let (tn, tape) = &tapes[0];
        let input = bits_of(0b10110101 >> (8 - bits), bits);
        let ctx = b"c04".to_vec();
        let nonce: [u8; 16] = tape.array(70);
        let vk: [u8; 32] = tape.array(71);
        let (ps, shares) = vdaf.shard_with_random(&ctx, &IdpfInput::from_bools(&input), &nonce, &tape.bytes(72, 32 + 96)).unwrap();
        let mut on = input[..=level].to_vec();
        let mut sib = on.clone();
        sib[level] = !sib[level];
        if sib < on {
            std::mem::swap(&mut on, &mut sib);
        }
        let ap = Poplar1AggregationParam::try_from_prefixes(vec![IdpfInput::from_bools(&on), IdpfInput::from_bools(&sib)]).unwrap();
        let (_, tr) = verify_report::<Pop, 32>(&vdaf, &vk, &ctx, &ap, &nonce, &ps, &shares, &VerifyOpts::wire()).expect("honest baseline");
        let honest_sum = out_sum(level == bits - 1, &tr.output_shares);
        assert!(valid_output(&honest_sum));
        // sites: (kind, round, agg, len)
        let mut sites: Vec<(&'static str, usize, usize, usize)> = vec![("public_share", 0, 0, tr.public_share.len())];
        for a in 0..2 {
            sites.push(("input_share", 0, a, tr.input_shares[a].len()));
        }
        for r in 0..2 {
            for a in 0..2 {
                sites.push(("verifier_share", r, a, tr.verifier_shares[r][a].len()));
            }
            sites.push(("verifier_message", r, 0, tr.verifier_messages[r].len()));
        }
        let mut alts: Vec<(usize, usize, u8)> = vec![];
        for (si, (kind, round, agg, len)) in sites.iter().enumerate() {
            let orig: &Vec<u8> = match *kind {
                "public_share" => &tr.public_share,
                "input_share" => &tr.input_shares[*agg],
                "verifier_share" => &tr.verifier_shares[*round][*agg],
                _ => &tr.verifier_messages[*round],
            };
            for pos in 0..*len {
                let b = orig[pos];
                let mut vals: Vec<u8> = if q { vec![b ^ 1, b ^ 0x80, b.wrapping_add(1), 0] } else { (0..8).map(|k| b ^ (1 << k)).chain([b.wrapping_add(1), b.wrapping_sub(1), 0, 0xff]).collect() };
                // the first bytes of the public share are packed control bits: every value
                if *kind == "public_share" && pos < bits.div_ceil(4) {
                    vals = (0..=255u8).collect();
                }
                vals.retain(|v| *v != b);
                vals.sort();
                vals.dedup();
                for v in vals {
                    alts.push((si, pos, v));
                }
            }
        }
        let undetected = Mutex::new(0u64);
        par::for_each(alts.len() as u64, |ai| {
            let (si, pos, v) = alts[ai as usize];
            let (k, r, a, _) = sites[si];
            let tam = |kind: &str, round: usize, agg: usize, bytes: &[u8]| -> Option<Vec<u8>> {
                if kind == k && round == r && (agg == a || kind == "public_share" || kind == "verifier_message") {
                    let mut o = bytes.to_vec();
                    if pos < o.len() {
                        o[pos] = v;
                    }
                    Some(o)
                } else {
                    None
                }
            };
            let res = verify_report::<Pop, 32>(&vdaf, &vk, &ctx, &ap, &nonce, &ps, &shares, &VerifyOpts::tamper(&tam));
            run.count("evaluations", 1);
            run.count("tamper_cases", 1);
            let case = || json!({"layer": "b", "bits": bits, "level": level, "tape": tn, "edit": {"msg": k, "round": r, "agg": a, "pos": pos, "byte": v}});
            match res {
                Ok((_, tr2)) => {
                    let sum = out_sum(level == bits - 1, &tr2.output_shares);
                    *undetected.lock().unwrap() += 1;
                    if !valid_output(&sum) {
                        run.fail(&format!("b/bits={bits}/level={level}/invalid_output/{k}"), &format!("Poplar1(bits={bits}, level {level}): after altering {k}[round {r}, agg {a}] byte {pos} := {v:#04x} both aggregators finished with output sum {:?} (not zero / one-hot 1)", sum), case());
                    }
                }
                Err(Failure { stage, msg }) => {
                    if let Stage::Panic(w) = &stage {
                        run.fail(&format!("b/bits={bits}/panic/{k}/{}", w.split('[').next().unwrap_or("")), &format!("Poplar1(bits={bits}): altering {k}[round {r}, agg {a}] byte {pos} := {v:#04x} made {w} panic: {msg}"), case());
                    }
                    tally(&format!("b:rejected:{:?}", std::mem::discriminant(&stage)));
                }
            }
        });
        // length alterations of every message (bytes appended: 1, one field element, a 16- or 32-byte seed; zeros,
        // 0xA5 or a copy of the message's own tail; bytes removed from the end): whenever both aggregators finish,
        // the output must be valid, and an altered honest message that is accepted unchanged is counted
        {
            let esz = if level == bits - 1 { 32usize } else { 8 };
            let mut lalts: Vec<(usize, i64, u8)> = vec![];
            for (si, (_, _, _, len)) in sites.iter().enumerate() {
                for k in [1usize, esz, 16, 32] {
                    for fill in [0u8, 0xA5, 1] {
                        if fill == 1 && *len < k {
                            continue;
                        }
                        lalts.push((si, k as i64, fill));
                    }
                    if *len >= k {
                        lalts.push((si, -(k as i64), 0));
                    }
                }
            }
            lalts.sort();
            lalts.dedup();
            par::for_each(lalts.len() as u64, |li| {
                let (si, delta, fill) = lalts[li as usize];
                let (k, r, a, _) = sites[si];
                let tam = |kind: &str, round: usize, agg: usize, bytes: &[u8]| -> Option<Vec<u8>> {
                    if kind == k && round == r && (agg == a || kind == "public_share" || kind == "verifier_message") {
                        let mut o = bytes.to_vec();
                        if delta < 0 {
                            o.truncate(o.len().saturating_sub((-delta) as usize));
                        } else {
                            let n = delta as usize;
                            let ext: Vec<u8> = if fill == 1 { o[o.len().saturating_sub(n)..].to_vec() } else { vec![fill; n] };
                            o.extend(ext);
                        }
                        Some(o)
                    } else {
                        None
                    }
                };
                run.count("evaluations", 1);
                run.count("length_alterations", 1);
                let label = if delta < 0 { format!("last {} bytes dropped", -delta) } else { format!("{} bytes appended (fill {})", delta, ["zeros", "own tail", "0xA5"][match fill { 0 => 0, 1 => 1, _ => 2 }]) };
                let case = || json!({"layer": "b-length", "bits": bits, "level": level, "message": k, "round": r, "agg": a, "alteration": label});
                match verify_report::<Pop, 32>(&vdaf, &vk, &ctx, &ap, &nonce, &ps, &shares, &VerifyOpts::tamper(&tam)) {
                    Ok((_, tr2)) => {
                        let sum = out_sum(level == bits - 1, &tr2.output_shares);
                        if !valid_output(&sum) {
                            run.fail(&format!("b/bits={bits}/level={level}/invalid_output/{k}/length"), &format!("Poplar1(bits={bits}, level {level}): {k}[round {r}, agg {a}] with {label}: both aggregators finished with output sum {:?}", sum), case());
                        } else {
                            // accepted with a valid output: not a violation of C04 (canonical encodings are C07's claim)
                            run.count("length_alterations_accepted_with_valid_output", 1);
                        }
                    }
                    Err(Failure { stage, msg }) => {
                        if let Stage::Panic(w) = &stage {
                            run.fail(&format!("b/bits={bits}/panic/{k}/{}", w.split('[').next().unwrap_or("")), &format!("Poplar1(bits={bits}): {k}[round {r}, agg {a}] with {label} made {w} panic: {msg}"), case());
                        }
                    }
                }
            });
        }
        run.distinct_many(alts.iter().map(|(si, pos, v)| fnv(format!("b/{bits}/{level}/{si}/{pos}/{v}").as_bytes())));
        run.sample(json!({"layer": "b", "bits": bits, "level": level, "alterations": alts.len(), "finished_with_valid_output": *undetected.lock().unwrap(), "honest_output": honest_sum}));
        eprintln!("[{:.1}s] tamper bits={bits} level={level}: {} alterations", run.elapsed(), alts.len());
    }
    shifted_value_all_candidates::<XofTurboShake128, 32>(&run, "XofTurboShake128,32", &tapes[0].1);
    shifted_value_all_candidates::<prio::vdaf::xof::XofFixedKeyAes128, 16>(&run, "XofFixedKeyAes128,16", &tapes[0].1);
    eprintln!("[{:.1}s] shifted value, all candidates", run.elapsed());
    run.note("outcomes", json!(*by_stage.lock().unwrap()));
    if run.get("transcription_conformance_failures") > 0 {
        run.assume("WARNING: correctly crafted reports were rejected in this run (library derivations differ from the harness transcription or completeness is broken): layer (a) lost power");
    }
    run.sample(json!({"layer": "a", "strategy": "beta[1]=2,auth=KTimesBeta", "meaning": "IDPF programmed with data 2 and authenticator 2k at level 1, correlated randomness honest for authenticator k"}));
    run.exhaustive(false);
    run.finish();
}
