//! C13 — aggregation is independent of order, grouping and batching of shares.
//!
//! Engine: explicit-state search (`pvh::engine::bfs`). For a fixed tuple of k output shares of one
//! aggregator the state is the multiset of live partial aggregates, each tagged *in the harness*
//! with the subset of shares it covers; the transition function is the real library:
//! `aggregate_init`, `AggregateShare::from(output_share)`, `Aggregatable::accumulate`,
//! `Aggregatable::merge`. In every state every aggregate must equal, byte for byte and element for
//! element, the sum of its subset computed by the harness on residues (BigUint); every aggregate that covers
//! the whole batch is handed to the real `Collector::unshard` together with a fixed aggregate share
//! of a second aggregator and compared with the single-pass result (and with the reference total
//! whenever that is representable in the result type). Before any
//! valid action is taken from a state, every aggregate of that state is subjected to every
//! ill-shaped operand (wrong length 0..=L+1, Poplar1 inner/leaf mixes at every length, in both
//! directions): the call must return Err and leave the accumulator's encoding unchanged, and the
//! search continues *from those very objects*. The one-shot `Aggregator::aggregate` is called for
//! every ordered subset of the shares.
use num_bigint::BigUint;
use num_traits::{One, ToPrimitive, Zero};
use prio::codec::Encode;
use prio::field::verif::{FieldV17, FieldV97};
use prio::field::{Field128, Field255, Field64, FieldPrio2};
use prio::flp::Type;
use prio::idpf::IdpfInput;
use prio::vdaf::poplar1::{Poplar1, Poplar1AggregationParam, Poplar1FieldVec};
use prio::vdaf::prio2::Prio2;
use prio::vdaf::prio3::Prio3;
use prio::vdaf::xof::XofTurboShake128;
use prio::vdaf::{Aggregatable, AggregateShare, Aggregator, Collector, OutputShare, Vdaf};
use pvh::engine::bfs::bfs;
use pvh::engine::{catch, fnv, hex, par, Level, Run};
use pvh::kit::ints::{IntConv, KitField};
use pvh::kit::p3cases::{count_case, histogram_case, sumvec_case, Case};
use serde_json::json;
use std::collections::BTreeMap;
use std::sync::Mutex;

type P3<T> = Prio3<T, XofTurboShake128, 32>;
type Pop = Poplar1<XofTurboShake128, 32>;
type Agg<V> = <V as Vdaf>::AggregateShare;
type Out<V> = <V as Vdaf>::OutputShare;
type ResFn<V> = Box<dyn Fn(&<V as Vdaf>::AggregateResult) -> Vec<BigUint> + Send + Sync>;

// ---------------------------------------------------------------------------------------------
// reference model: residues mod p as BigUint, little-endian fixed-width encoding

fn le_bytes(x: &BigUint, n: usize) -> Vec<u8> {
    let mut b = x.to_bytes_le();
    assert!(b.len() <= n, "reference value does not fit the element size");
    b.resize(n, 0);
    b
}

fn ref_add(a: &[BigUint], b: &[BigUint], p: &BigUint) -> Vec<BigUint> {
    assert_eq!(a.len(), b.len());
    a.iter().zip(b).map(|(x, y)| (x + y) % p).collect()
}

fn ref_encode(v: &[BigUint], esize: usize) -> Vec<u8> {
    v.iter().flat_map(|x| le_bytes(x, esize)).collect()
}

fn extremes(p: &BigUint) -> Vec<BigUint> {
    let one = BigUint::one();
    vec![BigUint::zero(), one.clone(), p - &one, p - 2u32, (p - &one) / 2u32]
}

/// Share-value alphabet for vectors of length `len` over GF(p).
fn domain(p: &BigUint, len: usize, full: bool) -> Vec<Vec<BigUint>> {
    let e = extremes(p);
    match len {
        1 => {
            if full {
                let n = p.to_u64().expect("full domain only for small fields");
                (0..n).map(|x| vec![BigUint::from(x)]).collect()
            } else {
                e.iter().map(|x| vec![x.clone()]).collect()
            }
        }
        2 => {
            let mut out = vec![];
            for a in &e {
                for b in &e {
                    out.push(vec![a.clone(), b.clone()]);
                }
            }
            out
        }
        3 => {
            let mut out: Vec<Vec<BigUint>> = e.iter().map(|x| vec![x.clone(); 3]).collect();
            for idx in [[0usize, 1, 2], [2, 3, 4], [4, 0, 3], [1, 2, 0], [3, 4, 1], [2, 2, 1], [4, 4, 3]] {
                out.push(idx.iter().map(|i| e[*i].clone()).collect());
            }
            out
        }
        _ => panic!("unsupported length"),
    }
}

/// All of `n^k` index tuples if that is at most `cap`, else the listed strided family
/// `(i + j*s mod n)_j` for i in 0..n, s in 0..min(n, cap/n).
fn tuples(n: usize, k: usize, cap: usize) -> (Vec<Vec<usize>>, bool) {
    if k == 0 {
        return (vec![vec![]], true);
    }
    let total = (n as u128).checked_pow(k as u32).unwrap_or(u128::MAX);
    if total <= cap as u128 {
        let mut out = Vec::with_capacity(total as usize);
        for mut i in 0..total as usize {
            let mut t = Vec::with_capacity(k);
            for _ in 0..k {
                t.push(i % n);
                i /= n;
            }
            out.push(t);
        }
        (out, true)
    } else {
        let strides = n.min((cap / n).max(2));
        let mut out = vec![];
        for s in 0..strides {
            for i in 0..n {
                out.push((0..k).map(|j| (i + j * s) % n).collect());
            }
        }
        out.sort();
        out.dedup();
        (out, false)
    }
}

// ---------------------------------------------------------------------------------------------
// one VDAF instance with a fixed aggregation parameter

struct Inst<V: Aggregator<32, 16> + Collector> {
    name: String,
    vdaf: V,
    param: V::AggregationParam,
    p: BigUint,
    /// encoded size of one element
    esize: usize,
    /// expected length of output / aggregate shares (stated by the harness, not asked of the library)
    len: usize,
    /// expected kind tag of aggregates (0 = plain field vector, 1 = Poplar1 inner, 2 = Poplar1 leaf)
    tag: u8,
    domain: Vec<Vec<BigUint>>,
    mk_out: Box<dyn Fn(&[BigUint]) -> Out<V> + Send + Sync>,
    /// kind tag of an aggregate share
    tag_of: Box<dyn Fn(&Agg<V>) -> u8 + Send + Sync>,
    /// kind tag and residues of an aggregate share, read element by element
    read: Box<dyn Fn(&Agg<V>) -> (u8, Vec<BigUint>) + Send + Sync>,
    /// operands that must be refused by an aggregate of this instance
    foreign: Vec<(String, Vec<u8>)>,
    mk_foreign: Box<dyn Fn(usize) -> Out<V> + Send + Sync>,
    result: ResFn<V>,
    /// largest element the result type can represent
    result_max: BigUint,
}

impl<V: Aggregator<32, 16> + Collector> Inst<V> {
    fn out(&self, v: &[BigUint]) -> Out<V> {
        (self.mk_out)(v)
    }
    fn read(&self, a: &Agg<V>) -> (u8, Vec<BigUint>) {
        (self.read)(a)
    }
    fn res(&self, r: &V::AggregateResult) -> Vec<BigUint> {
        (self.result)(r)
    }
    /// kind tag followed by the library's own encoding
    fn snap(&self, a: &Agg<V>) -> Vec<u8> {
        let mut out = vec![(self.tag_of)(a)];
        out.extend(a.get_encoded().expect("encoding an aggregate share failed"));
        out
    }
    fn expected_snap(&self, v: &[BigUint]) -> Vec<u8> {
        let mut out = vec![self.tag];
        out.extend(ref_encode(v, self.esize));
        out
    }
}

fn fe_of<F: KitField>(x: &BigUint) -> F
where
    F::Integer: IntConv,
{
    F::fe(x.to_u128().expect("residue exceeds 128 bits"))
}

/// Prio3 / Prio2: output and aggregate shares are plain field vectors.
fn fv_inst<V, F>(name: String, vdaf: V, param: V::AggregationParam, len: usize, full_domain: bool, result: ResFn<V>) -> Inst<V>
where
    F: KitField,
    F::Integer: IntConv,
    V: Aggregator<32, 16> + Collector + Vdaf<OutputShare = OutputShare<F>, AggregateShare = AggregateShare<F>>,
{
    let p = BigUint::from(F::p());
    let foreign: Vec<(String, Vec<u8>)> = (0..=len + 1).filter(|l| *l != len).map(|l| (format!("len={l}"), vec![l as u8])).collect();
    Inst {
        name,
        vdaf,
        param,
        esize: F::ENCODED_SIZE,
        len,
        tag: 0,
        domain: domain(&p, len, full_domain),
        mk_out: Box::new(|v: &[BigUint]| OutputShare::from(v.iter().map(fe_of::<F>).collect::<Vec<F>>())),
        tag_of: Box::new(|_a: &AggregateShare<F>| 0u8),
        read: Box::new(|a: &AggregateShare<F>| (0u8, a.as_ref().iter().map(|f| BigUint::from(f.val())).collect())),
        foreign,
        mk_foreign: Box::new(move |ix: usize| {
            let l = (0..=len + 1).filter(|l| *l != len).nth(ix).unwrap();
            OutputShare::from(vec![F::fe(1); l])
        }),
        result,
        result_max: &p - 1u32,
        p,
    }
}

fn prio3_inst<T>(case: Case<T>, len: usize, full_domain: bool) -> Inst<P3<T>>
where
    T: Type + Clone + Send + Sync + 'static,
    T::Field: KitField,
    <T::Field as prio::field::FieldElementWithInteger>::Integer: IntConv,
{
    let vdaf: P3<T> = Prio3::new(2, 1, case.alg, case.typ.clone()).expect("Prio3::new");
    let conv = case.result;
    fv_inst::<P3<T>, T::Field>(format!("Prio3/{}/L={len}", case.name), vdaf, (), len, full_domain, Box::new(move |r| conv(r).into_iter().map(BigUint::from).collect()))
}

fn prio2_inst(len: usize) -> Inst<Prio2> {
    let vdaf = Prio2::new(len).expect("Prio2::new");
    fv_inst::<Prio2, FieldPrio2>(format!("Prio2/L={len}"), vdaf, (), len, false, Box::new(|r: &Vec<u32>| r.iter().map(|x| BigUint::from(*x)).collect()))
}

fn f255(x: &BigUint) -> Field255 {
    Field255::try_from(&le_bytes(x, 32)[..]).expect("Field255 from canonical bytes")
}

fn pop_vec(leaf: bool, v: &[BigUint]) -> Poplar1FieldVec {
    if leaf {
        Poplar1FieldVec::Leaf(v.iter().map(f255).collect())
    } else {
        Poplar1FieldVec::Inner(v.iter().map(|x| Field64::from(x.to_u64().expect("Field64 residue"))).collect())
    }
}

/// Poplar1 with `bits`-bit inputs, aggregation parameter with `nprefixes` candidate prefixes at
/// `level`. The harness states the expected kind: leaf iff level == bits - 1.
fn poplar_inst(bits: usize, level: usize, nprefixes: usize) -> Inst<Pop> {
    assert!(level < bits);
    let leaf = level == bits - 1;
    let prefixes: Vec<IdpfInput> = (0..nprefixes)
        .map(|v| {
            // v written big-endian in the last bits of a (level+1)-bit string
            let bools: Vec<bool> = (0..=level).map(|k| {
                let sh = level - k;
                sh < 8 && (v >> sh) & 1 == 1
            }).collect();
            IdpfInput::from_bools(&bools)
        })
        .collect();
    let param = Poplar1AggregationParam::try_from_prefixes(prefixes).expect("aggregation parameter");
    let p: BigUint = if leaf { (BigUint::one() << 255) - 19u32 } else { BigUint::from(0xffff_ffff_0000_0001u64) };
    let len = nprefixes;
    // same kind with a wrong length, other kind with every length (including the right one)
    let mut flist: Vec<(bool, usize)> = vec![];
    for l in 0..=len + 1 {
        if l != len {
            flist.push((leaf, l));
        }
    }
    for l in 0..=len + 1 {
        flist.push((!leaf, l));
    }
    let foreign = flist.iter().map(|(lf, l)| (format!("{}(len={l})", if *lf { "Leaf" } else { "Inner" }), vec![*lf as u8, *l as u8])).collect();
    Inst {
        name: format!("Poplar1(bits={bits})/level={level}/prefixes={nprefixes}"),
        vdaf: Poplar1::new_turboshake128(bits),
        param,
        esize: if leaf { 32 } else { 8 },
        len,
        tag: if leaf { 2 } else { 1 },
        domain: domain(&p, len, false),
        mk_out: Box::new(move |v: &[BigUint]| pop_vec(leaf, v)),
        tag_of: Box::new(|a: &Poplar1FieldVec| match a {
            Poplar1FieldVec::Inner(_) => 1u8,
            Poplar1FieldVec::Leaf(_) => 2u8,
        }),
        read: Box::new(|a: &Poplar1FieldVec| match a {
            Poplar1FieldVec::Inner(v) => (1u8, v.iter().map(|f| BigUint::from(u64::from(*f))).collect()),
            Poplar1FieldVec::Leaf(v) => (2u8, v.iter().map(|f| BigUint::from_bytes_le(&f.get_encoded().expect("Field255 encode"))).collect()),
        }),
        foreign,
        mk_foreign: Box::new(move |ix: usize| {
            let (lf, l) = flist[ix];
            pop_vec(lf, &vec![BigUint::one(); l])
        }),
        result: Box::new(|r: &Vec<u64>| r.iter().map(|x| BigUint::from(*x)).collect()),
        result_max: BigUint::from(u64::MAX),
        p,
    }
}

// ---------------------------------------------------------------------------------------------
// exploration

#[derive(Clone)]
struct St<A: Clone> {
    /// (bitmask of covered shares, the real aggregate)
    aggs: Vec<(u32, A)>,
}

#[derive(Clone, Copy)]
struct Cfg {
    k: usize,
    max_live: usize,
    max_empty: usize,
    label: &'static str,
}

#[derive(Default)]
struct Tot {
    states: u64,
    transitions: u64,
    refused: u64,
    one_shot: u64,
    unshards: u64,
    identity: u64,
    terminal_states: u64,
    max_depth: usize,
}

fn call<T>(what: &str, f: impl FnOnce() -> T) -> Result<T, String> {
    catch(f).map_err(|m| format!("{what} panicked: {m}"))
}

/// An operand that aggregates of the instance must refuse, built once per share tuple.
struct Foreign<V: Vdaf> {
    label: String,
    out: Out<V>,
    agg: Agg<V>,
    snap: Vec<u8>,
}

type Verdict = Result<(), (String, String)>;

fn refusal_verdict(op: &str, lbl: &str, who: &str, r: Result<Result<(), prio::vdaf::VdafError>, String>, before: &[u8], after: Vec<u8>) -> Verdict {
    match r {
        Err(m) => Err((format!("refusal/{op}/{lbl}/panic"), format!("{op} with ill-shaped operand {lbl} ({who}): {m}"))),
        Ok(Ok(())) => Err((format!("refusal/{op}/{lbl}/accepted"), format!("{op} with ill-shaped operand {lbl} ({who}) returned Ok; accumulator {} -> {}", hex(before), hex(&after)))),
        Ok(Err(_)) if before != &after[..] => Err((format!("refusal/{op}/{lbl}/modified"), format!("{op} with ill-shaped operand {lbl} ({who}) returned Err but changed the accumulator {} -> {}", hex(before), hex(&after)))),
        Ok(Err(_)) => Ok(()),
    }
}

/// All ill-shaped operands against the aggregate `x` (which has the shape expected for the
/// instance): accumulate and merge into `x`, and merge of `x` into the ill-shaped aggregate.
/// Returns the number of refused actions checked, or (kind, message).
fn refusals<V: Aggregator<32, 16> + Collector>(inst: &Inst<V>, x: &mut Agg<V>, foreign: &[Foreign<V>]) -> Result<u64, (String, String)> {
    let mut n = 0;
    let before = inst.snap(x);
    for f in foreign {
        let r = call("accumulate", || x.accumulate(&f.out));
        refusal_verdict("accumulate", &f.label, "accumulator well-shaped", r, &before, inst.snap(x))?;
        let r = call("merge", || x.merge(&f.agg));
        refusal_verdict("merge", &f.label, "accumulator well-shaped", r, &before, inst.snap(x))?;
        // other direction: the ill-shaped aggregate is the accumulator
        let mut y = f.agg.clone();
        let r = call("merge", || y.merge(x));
        refusal_verdict("merge", &f.label, "operand well-shaped, accumulator ill-shaped", r, &f.snap, inst.snap(&y))?;
        n += 3;
    }
    Ok(n)
}

fn permutations(items: &[usize], cur: &mut Vec<usize>, used: u32, f: &mut impl FnMut(&[usize])) {
    if cur.len() == items.len() {
        f(cur);
        return;
    }
    for (j, it) in items.iter().enumerate() {
        if used >> j & 1 == 0 {
            cur.push(*it);
            permutations(items, cur, used | 1 << j, f);
            cur.pop();
        }
    }
}

fn unshard_vals<V: Aggregator<32, 16> + Collector>(inst: &Inst<V>, aggs: Vec<Agg<V>>, n: usize) -> Result<Result<Vec<BigUint>, String>, String> {
    call("unshard", || inst.vdaf.unshard(&inst.param, aggs, n)).map(|r| r.map(|v| inst.res(&v)).map_err(|e| e.to_string()))
}

fn explore_tuple<V>(fail: &dyn Fn(&str, &str, serde_json::Value), inst: &Inst<V>, cfg: &Cfg, tuple: &[usize], tot: &mut Tot)
where
    V: Aggregator<32, 16> + Collector,
{
    let k = cfg.k;
    let n = inst.domain.len();
    let key = |kind: &str| format!("{}/{kind}", inst.name);
    let casej = |extra: serde_json::Value| {
        json!({"instance": inst.name, "k": k, "mode": cfg.label,
            "shares": tuple.iter().map(|i| inst.domain[*i].iter().map(|x| x.to_string()).collect::<Vec<_>>()).collect::<Vec<_>>(),
            "detail": extra})
    };
    let vals0: Vec<&Vec<BigUint>> = tuple.iter().map(|i| &inst.domain[*i]).collect();
    let vals1: Vec<&Vec<BigUint>> = tuple.iter().enumerate().map(|(j, i)| &inst.domain[(i + j + 1) % n]).collect();
    let shares: Vec<Out<V>> = vals0.iter().map(|v| inst.out(v)).collect();
    let shares1: Vec<Out<V>> = vals1.iter().map(|v| inst.out(v)).collect();
    let full: u32 = (1u32 << k) - 1;
    // reference sums of all subsets
    let zero = vec![BigUint::zero(); inst.len];
    let mut sums: Vec<Vec<BigUint>> = Vec::with_capacity(1 << k);
    for m in 0..=full {
        if m == 0 {
            sums.push(zero.clone());
        } else {
            let low = m.trailing_zeros() as usize;
            let rest = m & (m - 1);
            let s = ref_add(&sums[rest as usize], vals0[low], &inst.p);
            sums.push(s);
        }
    }
    let snaps: Vec<Vec<u8>> = sums.iter().map(|s| inst.expected_snap(s)).collect();
    let sum1 = vals1.iter().fold(zero.clone(), |a, v| ref_add(&a, v, &inst.p));
    let total = ref_add(&sums[full as usize], &sum1, &inst.p);
    let total_fits = total.iter().all(|x| *x <= inst.result_max);

    // --- one-shot aggregate for every ordered subset (and the second aggregator's fixed aggregate)
    let agg1: Agg<V> = match call("aggregate", || inst.vdaf.aggregate(&inst.param, shares1.iter().cloned())) {
        Ok(Ok(a)) => a,
        Ok(Err(e)) => return fail(&key("one_shot/refused"), &format!("{}: aggregate() over {k} well-shaped output shares failed: {e}", inst.name), casej(json!("aggregator 1"))),
        Err(m) => return fail(&key("one_shot/panic"), &format!("{}: {m}", inst.name), casej(json!("aggregator 1"))),
    };
    if inst.snap(&agg1) != inst.expected_snap(&sum1) {
        return fail(&key("one_shot/value"), &format!("{}: aggregate() over aggregator 1's shares = {} but the sum of the shares is {}", inst.name, hex(&inst.snap(&agg1)), hex(&inst.expected_snap(&sum1))), casej(json!("aggregator 1")));
    }
    let mut single: Option<Agg<V>> = None;
    for m in 0..=full {
        let items: Vec<usize> = (0..k).filter(|i| m >> i & 1 == 1).collect();
        let mut err: Option<(String, String, Vec<usize>)> = None;
        let mut cnt = 0u64;
        permutations(&items, &mut vec![], 0, &mut |perm: &[usize]| {
            if err.is_some() {
                return;
            }
            cnt += 1;
            match call("aggregate", || inst.vdaf.aggregate(&inst.param, perm.iter().map(|i| shares[*i].clone()))) {
                Ok(Ok(a)) => {
                    let got = inst.snap(&a);
                    let (tag, vals) = inst.read(&a);
                    if got != snaps[m as usize] || tag != inst.tag || vals != sums[m as usize] {
                        err = Some(("one_shot/value".into(), format!("aggregate() over shares {perm:?} = {} (elements {:?}), reference sum {}", hex(&got), vals.iter().map(|x| x.to_string()).collect::<Vec<_>>(), hex(&snaps[m as usize])), perm.to_vec()));
                    } else if m == full && perm.windows(2).all(|w| w[0] < w[1]) {
                        single = Some(a);
                    }
                }
                Ok(Err(e)) => err = Some(("one_shot/refused".into(), format!("aggregate() over well-shaped shares {perm:?} failed: {e}"), perm.to_vec())),
                Err(mm) => err = Some(("one_shot/panic".into(), mm, perm.to_vec())),
            }
        });
        tot.one_shot += cnt;
        if let Some((kind, msg, perm)) = err {
            return fail(&key(&kind), &format!("{}: {msg}", inst.name), casej(json!({"order": perm})));
        }
    }
    let single = single.expect("identity order visited");
    // one-shot aggregate with an ill-shaped share anywhere in the list must fail
    for (ix, (lbl, _)) in inst.foreign.iter().enumerate() {
        for pos in 0..=k.min(2) {
            let mut list: Vec<Out<V>> = shares.clone();
            list.insert(pos.min(list.len()), (inst.mk_foreign)(ix));
            tot.refused += 1;
            match call("aggregate", || inst.vdaf.aggregate(&inst.param, list)) {
                Ok(Err(_)) => {}
                Ok(Ok(a)) => return fail(&key(&format!("refusal/one_shot/{lbl}/accepted")), &format!("{}: aggregate() with an ill-shaped share {lbl} at position {pos} returned Ok({})", inst.name, hex(&inst.snap(&a))), casej(json!({"position": pos, "operand": lbl}))),
                Err(m) => return fail(&key(&format!("refusal/one_shot/{lbl}/panic")), &format!("{}: aggregate() with an ill-shaped share {lbl} at position {pos}: {m}", inst.name), casej(json!({"position": pos, "operand": lbl}))),
            }
        }
    }
    // single-pass collection
    let single_result = match unshard_vals(inst, vec![single.clone(), agg1.clone()], k) {
        Ok(r) => r,
        Err(m) => return fail(&key("unshard/panic"), &format!("{}: {m}", inst.name), casej(json!("single pass"))),
    };
    tot.unshards += 1;
    if total_fits && single_result.as_ref().ok() != Some(&total) {
        return fail(&key("unshard/single_pass"), &format!("{}: single-pass unshard = {:?}, reference total {:?}", inst.name, single_result, total.iter().map(|x| x.to_string()).collect::<Vec<_>>()), casej(json!("single pass")));
    }

    // --- explicit-state search
    let mut foreign: Vec<Foreign<V>> = vec![];
    for (ix, (lbl, _)) in inst.foreign.iter().enumerate() {
        let out = (inst.mk_foreign)(ix);
        let agg: Agg<V> = match call("From<OutputShare>", || Agg::<V>::from(out.clone())) {
            Ok(a) => a,
            Err(m) => return fail(&key("from/panic"), &format!("{}: {m}", inst.name), casej(json!({"operand": lbl}))),
        };
        let snap = inst.snap(&agg);
        foreign.push(Foreign { label: lbl.clone(), out, agg, snap });
    }
    // an ill-shaped accumulator must refuse every well-shaped output share
    for f in &foreign {
        let fallback = [inst.out(&inst.domain[0])];
        for o in if k > 0 { &shares[..] } else { &fallback[..] } {
            let mut y = f.agg.clone();
            let r = call("accumulate", || y.accumulate(o));
            tot.refused += 1;
            if let Err((kind, msg)) = refusal_verdict("accumulate", &f.label, "operand well-shaped, accumulator ill-shaped", r, &f.snap, inst.snap(&y)) {
                return fail(&key(&kind), &format!("{}: {msg}", inst.name), casej(json!({"accumulator": f.label})));
            }
        }
    }
    let mut step_errs: Vec<(String, String, String)> = vec![];
    let mut refused = 0u64;
    let mut identity = 0u64;
    let mut unshards = 0u64;
    let mut terminals = 0u64;
    let canon = |s: &St<Agg<V>>| -> Vec<u8> {
        let mut parts: Vec<Vec<u8>> = s
            .aggs
            .iter()
            .map(|(m, a)| {
                let mut b = m.to_le_bytes().to_vec();
                b.extend(inst.snap(a));
                b
            })
            .collect();
        parts.sort();
        let mut out = vec![];
        for p in parts {
            out.extend((p.len() as u32).to_le_bytes());
            out.extend(p);
        }
        out
    };
    let step = |s: &St<Agg<V>>, _d: usize| -> Vec<(String, St<Agg<V>>)> {
        let mut out = vec![];
        if !step_errs.is_empty() {
            return out;
        }
        let mut base = s.clone();
        // refused actions first, on the objects the search continues with
        for ai in 0..base.aggs.len() {
            match refusals(inst, &mut base.aggs[ai].1, &foreign) {
                Ok(c) => refused += c,
                Err((kind, msg)) => {
                    step_errs.push((kind, msg, format!("aggregate covering mask {:#b}", base.aggs[ai].0)));
                    return out;
                }
            }
        }
        let live = base.aggs.len();
        let empties = base.aggs.iter().filter(|(m, _)| *m == 0).count();
        let used: u32 = base.aggs.iter().fold(0, |u, (m, _)| {
            assert_eq!(u & m, 0, "harness: a share is covered twice");
            u | m
        });
        if live < cfg.max_live && empties < cfg.max_empty {
            match call("aggregate_init", || inst.vdaf.aggregate_init(&inst.param)) {
                Ok(a) => {
                    let mut nx = base.clone();
                    nx.aggs.push((0, a));
                    out.push(("aggregate_init".to_string(), nx));
                }
                Err(m) => step_errs.push(("aggregate_init/panic".into(), m, String::new())),
            }
        }
        for i in 0..k {
            if used >> i & 1 == 1 {
                continue;
            }
            if live < cfg.max_live {
                match call("From<OutputShare>", || Agg::<V>::from(shares[i].clone())) {
                    Ok(a) => {
                        let mut nx = base.clone();
                        nx.aggs.push((1 << i, a));
                        out.push((format!("from(o{i})"), nx));
                    }
                    Err(m) => step_errs.push(("from/panic".into(), m, format!("o{i}"))),
                }
            }
            for ai in 0..live {
                let mut nx = base.clone();
                let label = format!("accumulate(o{i} -> {:#b})", nx.aggs[ai].0);
                match call("accumulate", || nx.aggs[ai].1.accumulate(&shares[i])) {
                    Ok(Ok(())) => {
                        nx.aggs[ai].0 |= 1 << i;
                        out.push((label, nx));
                    }
                    Ok(Err(e)) => step_errs.push(("accumulate/refused".into(), format!("accumulate of a well-shaped output share failed: {e}"), label)),
                    Err(m) => step_errs.push(("accumulate/panic".into(), m, label)),
                }
            }
        }
        for ai in 0..live {
            for bi in 0..live {
                if ai == bi {
                    continue;
                }
                let mut nx = base.clone();
                let (ma, a) = nx.aggs.remove(ai);
                let bj = if bi > ai { bi - 1 } else { bi };
                let mb = nx.aggs[bj].0;
                let label = format!("merge({ma:#b} -> {mb:#b})");
                let want_same = if ma == 0 {
                    Some(inst.snap(&nx.aggs[bj].1))
                } else if mb == 0 {
                    Some(inst.snap(&a))
                } else {
                    None
                };
                match call("merge", || nx.aggs[bj].1.merge(&a)) {
                    Ok(Ok(())) => {
                        if let Some(w) = want_same {
                            identity += 1;
                            let got = inst.snap(&nx.aggs[bj].1);
                            if got != w {
                                step_errs.push(("identity".into(), format!("merging with the empty aggregate changed the value: {} -> {}", hex(&w), hex(&got)), label.clone()));
                            }
                        }
                        nx.aggs[bj].0 |= ma;
                        out.push((label, nx));
                    }
                    Ok(Err(e)) => step_errs.push(("merge/refused".into(), format!("merge of two well-shaped aggregate shares failed: {e}"), label)),
                    Err(m) => step_errs.push(("merge/panic".into(), m, label)),
                }
            }
        }
        out
    };
    let inv = |s: &St<Agg<V>>| -> Result<(), String> {
        let mut union = 0u32;
        for (m, a) in &s.aggs {
            assert_eq!(union & m, 0, "harness: a share is covered twice");
            union |= m;
            let got = inst.snap(a);
            let (tag, vals) = inst.read(a);
            if got != snaps[*m as usize] || tag != inst.tag || vals != sums[*m as usize] {
                return Err(format!(
                    "value: aggregate covering shares {m:#b} is kind {tag} {} (elements {:?}); reference sum of that subset is kind {} {}",
                    hex(&got[1..]),
                    vals.iter().map(|x| x.to_string()).collect::<Vec<_>>(),
                    inst.tag,
                    hex(&snaps[*m as usize][1..])
                ));
            }
        }
        // terminal aggregates (covering the whole batch) are collected together with the second
        // aggregator's aggregate share and compared with the single pass
        for (_, a) in s.aggs.iter().filter(|(m, _)| *m == full) {
            terminals += 1;
            unshards += 1;
            let r = unshard_vals(inst, vec![a.clone(), agg1.clone()], k).map_err(|m| format!("unshard_panic: {m}"))?;
            let same = match (&r, &single_result) {
                (Ok(a), Ok(b)) => a == b,
                (Err(_), Err(_)) => true,
                _ => false,
            };
            if !same {
                return Err(format!("unshard_vs_single_pass: unshard over [stepwise aggregate, aggregator 1] = {:?}, single pass = {:?}", r, single_result));
            }
            if total_fits && r.as_ref().ok() != Some(&total) {
                return Err(format!("unshard_value: unshard = {:?}, reference total {:?}", r, total.iter().map(|x| x.to_string()).collect::<Vec<_>>()));
            }
        }
        Ok(())
    };
    let (stats, failure) = bfs(vec![St { aggs: vec![] }], usize::MAX, u64::MAX, canon, step, inv);
    tot.states += stats.states;
    tot.transitions += stats.transitions;
    tot.max_depth = tot.max_depth.max(stats.max_depth);
    tot.refused += refused;
    tot.identity += identity;
    tot.unshards += unshards;
    tot.terminal_states += terminals;
    assert!(!stats.truncated);
    if let Some((kind, msg, at)) = step_errs.into_iter().next() {
        fail(&key(&kind), &format!("{}: {msg} [{at}]", inst.name), casej(json!({"at": at})));
        return;
    }
    if let Some((trace, msg)) = failure {
        let kind = msg.split(':').next().unwrap_or("invariant").to_string();
        fail(&key(&format!("invariant/{kind}")), &format!("{}: after {:?}: {msg}", inst.name, trace), casej(json!({"trace": trace})));
        return;
    }
    // sanity of the search itself: with every value determined by its subset, the number of states
    // is a function of (k, max_live, max_empty) only; it must at least contain a terminal state
    if k > 0 {
        assert!(terminals > 0, "harness: no terminal state reached");
    }
}

/// Direct commutativity / associativity for one triple (index `ix` into alphabet^3, L = 1).
fn algebra_triple<V>(fail: &dyn Fn(&str, &str, serde_json::Value), inst: &Inst<V>, ix: u64)
where
    V: Aggregator<32, 16> + Collector,
{
    let n = inst.domain.len() as u64;
    {
        let (a, b, c) = ((ix % n) as usize, (ix / n % n) as usize, (ix / n / n) as usize);
        let v = [&inst.domain[a], &inst.domain[b], &inst.domain[c]];
        let want = inst.expected_snap(&ref_add(&ref_add(v[0], v[1], &inst.p), v[2], &inst.p));
        let o: Vec<Out<V>> = v.iter().map(|x| inst.out(x)).collect();
        let from = |i: usize| Agg::<V>::from(o[i].clone());
        let r = call("merge/accumulate", || -> Result<Vec<Vec<u8>>, prio::vdaf::VdafError> {
            let mut res = vec![];
            // (a+b)+c
            let mut x = from(0);
            x.merge(&from(1))?;
            x.merge(&from(2))?;
            res.push(inst.snap(&x));
            // a+(b+c)
            let mut y = from(1);
            y.merge(&from(2))?;
            let mut z = from(0);
            z.merge(&y)?;
            res.push(inst.snap(&z));
            // (c+a)+b
            let mut w = from(2);
            w.merge(&from(0))?;
            w.merge(&from(1))?;
            res.push(inst.snap(&w));
            // accumulate into the empty aggregate in all six orders
            for ord in [[0usize, 1, 2], [0, 2, 1], [1, 0, 2], [1, 2, 0], [2, 0, 1], [2, 1, 0]] {
                let mut e = inst.vdaf.aggregate_init(&inst.param);
                for i in ord {
                    e.accumulate(&o[i])?;
                }
                res.push(inst.snap(&e));
            }
            // mixed: (init + a) merged into (from(b) accumulate c)
            let mut e = inst.vdaf.aggregate_init(&inst.param);
            e.accumulate(&o[0])?;
            let mut f = from(1);
            f.accumulate(&o[2])?;
            f.merge(&e)?;
            res.push(inst.snap(&f));
            Ok(res)
        });
        let casej = json!({"instance": inst.name, "a": v[0][0].to_string(), "b": v[1][0].to_string(), "c": v[2][0].to_string()});
        match r {
            Err(m) => fail(&format!("{}/algebra/panic", inst.name), &format!("{}: {m}", inst.name), casej),
            Ok(Err(e)) => fail(&format!("{}/algebra/refused", inst.name), &format!("{}: merging/accumulating well-shaped shares failed: {e}", inst.name), casej),
            Ok(Ok(res)) => {
                const NAMES: [&str; 10] = ["(a+b)+c", "a+(b+c)", "(c+a)+b", "0+a+b+c", "0+a+c+b", "0+b+a+c", "0+b+c+a", "0+c+a+b", "0+c+b+a", "(b+c)+(0+a)"];
                for (i, g) in res.iter().enumerate() {
                    if *g != want {
                        fail(&format!("{}/algebra/{}", inst.name, NAMES[i]), &format!("{}: a={} b={} c={}: {} = {}, reference {} (first grouping gave {})", inst.name, v[0][0], v[1][0], v[2][0], NAMES[i], hex(g), hex(&want), hex(&res[0])), casej.clone());
                        break;
                    }
                }
            }
        }
    }
}

/// Approximate number of transitions of one search, used only to size the tuple families.
fn cost(k: usize) -> usize {
    [1, 12, 80, 400, 1800, 12000, 100000].get(k).copied().unwrap_or(usize::MAX / 1024)
}

struct Batch {
    cfg: Cfg,
    tups: Vec<Vec<usize>>,
    full: bool,
}

/// Type-erased instance with its planned searches, so that all work items of all instances can be
/// spread over one pool of workers.
trait AnyInst: Sync {
    fn name(&self) -> &str;
    fn alphabet(&self) -> usize;
    fn batches(&self) -> &[Batch];
    fn run_tuple(&self, fail: &dyn Fn(&str, &str, serde_json::Value), b: usize, t: usize, tot: &mut Tot);
    fn algebra_items(&self) -> u64;
    fn run_algebra(&self, fail: &dyn Fn(&str, &str, serde_json::Value), ix: u64);
}

struct Planned<V: Aggregator<32, 16> + Collector> {
    inst: Inst<V>,
    batches: Vec<Batch>,
}

impl<V> AnyInst for Planned<V>
where
    V: Aggregator<32, 16> + Collector + Sync,
    V::AggregationParam: Sync,
{
    fn name(&self) -> &str {
        &self.inst.name
    }
    fn alphabet(&self) -> usize {
        self.inst.domain.len()
    }
    fn batches(&self) -> &[Batch] {
        &self.batches
    }
    fn run_tuple(&self, fail: &dyn Fn(&str, &str, serde_json::Value), b: usize, t: usize, tot: &mut Tot) {
        let batch = &self.batches[b];
        explore_tuple(fail, &self.inst, &batch.cfg, &batch.tups[t], tot)
    }
    fn algebra_items(&self) -> u64 {
        if self.inst.len == 1 {
            (self.inst.domain.len() as u64).pow(3)
        } else {
            0
        }
    }
    fn run_algebra(&self, fail: &dyn Fn(&str, &str, serde_json::Value), ix: u64) {
        algebra_triple(fail, &self.inst, ix)
    }
}

fn plan<V>(run: &Run, inst: Inst<V>, weight: usize) -> Box<dyn AnyInst>
where
    V: Aggregator<32, 16> + Collector + Sync + 'static,
    V::AggregationParam: Sync,
{
    let n = inst.domain.len();
    // weight 0 = light plan (very long Poplar1 inputs, where every call handles 8 KiB prefixes): k <= 2 (thorough 3)
    let light = weight == 0;
    let kmax = if light { run.pick(2, 3) } else { run.pick(4, 5) };
    let budget = if light { run.pick(4_000usize, 60_000) } else { run.pick(1_200_000usize, 25_000_000) * weight };
    let mut batches = vec![];
    for k in 0..=kmax {
        let cap = (budget / cost(k)).max(n);
        let (tups, full) = tuples(n, k, cap);
        batches.push(Batch { cfg: Cfg { k, max_live: k + 1, max_empty: 2, label: "tree" }, tups, full });
    }
    // linear chains over more shares: at most two live aggregates
    for k in if light { vec![3] } else { run.pick(vec![6], vec![6, 7]) } {
        let (tups, full) = tuples(n, k, run.pick(2 * n, 4 * n).max(10));
        batches.push(Batch { cfg: Cfg { k, max_live: 2, max_empty: 1, label: "chain" }, tups, full });
    }
    Box::new(Planned { inst, batches })
}

/// Failures are collected and reported in a fixed order (the first work item, in enumeration
/// order, per key) so that a failing run prints the same cases every time.
type FailMap = Mutex<BTreeMap<String, ((u32, u32, u64), String, serde_json::Value)>>;

enum Item {
    Tuple { inst: u32, batch: u32, t: u32 },
    Algebra { inst: u32, start: u64, end: u64 },
}

/// Large batches through the batch entry point: `aggregate` over n output shares (n around every power of
/// two up to 1024 and a few odd sizes) must equal the reference sum, the report-by-report `accumulate`
/// chain, and the merge of sub-batches of 7, 32 and 100 reports aggregated separately.
fn large_batches<V>(run: &Run, inst: &Inst<V>)
where
    V: Aggregator<32, 16> + Collector,
{
    let sizes: Vec<usize> = run.pick(vec![8, 31, 32, 33, 64, 100, 127, 128, 129, 150, 255, 256, 257, 1000], vec![8, 31, 32, 33, 63, 64, 65, 96, 100, 127, 128, 129, 130, 150, 191, 192, 255, 256, 257, 511, 512, 513, 1000, 1023, 1024, 1025, 4099]);
    let d = &inst.domain;
    for n in sizes {
        let vals: Vec<&Vec<BigUint>> = (0..n).map(|i| &d[(i * 7 + i / 5 + 1) % d.len()]).collect();
        let mut want = vec![BigUint::zero(); inst.len];
        for v in &vals {
            want = ref_add(&want, v, &inst.p);
        }
        let want_snap = inst.expected_snap(&want);
        let key = format!("{}/large_batch", inst.name);
        let case = || json!({"instance": inst.name, "batch_size": n});
        run.count("evaluations", 1);
        run.count("large_batches", 1);
        let whole = match call("aggregate", || inst.vdaf.aggregate(&inst.param, vals.iter().map(|v| inst.out(v)))) {
            Ok(Ok(a)) => a,
            other => {
                run.fail(&format!("{key}/aggregate"), &format!("{}: aggregate over {n} well-formed output shares failed: {:?}", inst.name, other.map(|r| r.map(|_| ()).map_err(|e| e.to_string()))), case());
                return;
            }
        };
        if inst.snap(&whole) != want_snap {
            run.fail(&format!("{key}/aggregate_value"), &format!("{}: aggregate over a batch of {n} output shares differs from the sum of the shares", inst.name), case());
            return;
        }
        // report by report
        let mut chain = inst.vdaf.aggregate_init(&inst.param);
        for v in &vals {
            if let Err(e) = chain.accumulate(&inst.out(v)) {
                run.fail(&format!("{key}/accumulate"), &format!("{}: accumulate refused a well-formed share: {e}", inst.name), case());
                return;
            }
        }
        if inst.snap(&chain) != want_snap {
            run.fail(&format!("{key}/chain_value"), &format!("{}: accumulating {n} output shares one by one differs from their sum", inst.name), case());
            return;
        }
        // sub-batches aggregated separately, then merged
        for sub in [7usize, 32, 100] {
            let mut acc = inst.vdaf.aggregate_init(&inst.param);
            for part in vals.chunks(sub) {
                let a = match call("aggregate", || inst.vdaf.aggregate(&inst.param, part.iter().map(|v| inst.out(v)))) {
                    Ok(Ok(a)) => a,
                    _ => {
                        run.fail(&format!("{key}/aggregate"), &format!("{}: aggregate over a sub-batch of {} shares failed", inst.name, part.len()), case());
                        return;
                    }
                };
                if let Err(e) = acc.merge(&a) {
                    run.fail(&format!("{key}/merge"), &format!("{}: merging a sub-batch aggregate was refused: {e}", inst.name), case());
                    return;
                }
            }
            if inst.snap(&acc) != want_snap {
                run.fail(&format!("{key}/partition_value"), &format!("{}: a batch of {n} output shares aggregated in sub-batches of {sub} and merged differs from the single pass", inst.name), case());
                return;
            }
        }
        run.distinct(fnv(format!("large/{}/{n}", inst.name).as_bytes()));
    }
}

/// The collector: aggregate shares that agree with each other but not with the aggregation parameter they
/// are unsharded under (every wrong length, the other tree level) must be refused by `unshard`.
fn unshard_refusals<V>(run: &Run, inst: &Inst<V>)
where
    V: Aggregator<32, 16> + Collector,
    V::AggregateShare: From<Out<V>>,
{
    for (fi, (label, _)) in inst.foreign.iter().enumerate() {
        run.count("evaluations", 1);
        run.count("unshard_refusal_cases", 1);
        let aggs: Vec<Agg<V>> = (0..2).map(|_| Agg::<V>::from((inst.mk_foreign)(fi))).collect();
        match call("unshard", || inst.vdaf.unshard(&inst.param, aggs, 1)) {
            Ok(Err(_)) => {}
            Ok(Ok(r)) => run.fail(&format!("{}/unshard_accepts_foreign", inst.name), &format!("{}: unshard combined two aggregate shares of shape {label}, which does not fit the aggregation parameter, into {:?} instead of refusing them", inst.name, inst.res(&r)), json!({"instance": inst.name, "foreign": label})),
            Err(m) => run.fail(&format!("{}/unshard_panic", inst.name), &format!("{}: unshard panicked on aggregate shares of shape {label}: {m}", inst.name), json!({"instance": inst.name, "foreign": label})),
        }
    }
}

fn main() {
    let run = Run::from_args("C13", Level::ModelChecking);
    let run = &run;
    let mut insts: Vec<Box<dyn AnyInst>> = vec![];
    // Prio3 instantiated over GF(17) / GF(97): every value of every share for L = 1
    insts.push(plan(run, prio3_inst(count_case::<FieldV17>(), 1, true), run.pick(2, 12)));
    insts.push(plan(run, prio3_inst(count_case::<FieldV97>(), 1, true), 1));
    // Poplar1: (bits, level, number of prefixes); leaf iff level == bits-1
    let mut pops: Vec<(usize, usize, usize)> = vec![(1, 0, 1), (1, 0, 2), (2, 0, 1), (2, 0, 2), (2, 1, 1), (2, 1, 2), (2, 1, 3), (3, 0, 2), (3, 1, 1), (3, 1, 2), (3, 1, 3), (3, 2, 1), (3, 2, 2), (3, 2, 3)];
    // long inputs: levels whose low 8 bits coincide with those of the leaf level must still be inner
    pops.extend([(257, 0, 2), (257, 256, 1), (258, 1, 3), (258, 255, 1), (258, 256, 2), (258, 257, 1), (258, 257, 3)]);
    // the longest admissible inputs: level arithmetic at the u16 boundary (leaf level 65535)
    pops.extend([(65536, 65535, 1), (65536, 65534, 2), (65535, 65534, 1), (256, 255, 1), (256, 254, 2)]);
    if !run.quick() {
        pops.extend([(65536, 65535, 2), (65536, 255, 1), (65536, 0, 1), (65535, 65533, 2)]);
    }
    for (bits, level, np) in pops {
        insts.push(plan(run, poplar_inst(bits, level, np), if bits > 1000 { 0 } else { 1 }));
    }
    // Prio3 over deployed fields
    insts.push(plan(run, prio3_inst(count_case::<Field64>(), 1, false), 1));
    for l in 1..=3usize {
        insts.push(plan(run, prio3_inst(sumvec_case::<Field128>(255, l, 2), l, false), 1));
        insts.push(plan(run, prio3_inst(histogram_case::<Field128>(l, 1), l, false), 1));
    }
    for l in 2..=3usize {
        insts.push(plan(run, prio3_inst(sumvec_case::<FieldV17>(1, l, 1), l, false), 1));
        insts.push(plan(run, prio3_inst(histogram_case::<FieldV97>(l, 1), l, false), 1));
    }
    // Prio2
    for l in 1..=3usize {
        insts.push(plan(run, prio2_inst(l), 1));
    }

    // large batches through the batch entry point (one instance per VDAF and kind)
    large_batches(run, &prio2_inst(3));
    large_batches(run, &prio2_inst(1));
    large_batches(run, &prio3_inst(count_case::<Field64>(), 1, false));
    large_batches(run, &prio3_inst(histogram_case::<Field128>(3, 1), 3, false));
    large_batches(run, &prio3_inst(sumvec_case::<FieldV17>(1, 2, 1), 2, false));
    large_batches(run, &poplar_inst(3, 1, 2));
    large_batches(run, &poplar_inst(3, 2, 3));
    for (bits, level, np) in [(1usize, 0usize, 1usize), (2, 0, 2), (2, 1, 2), (3, 1, 3), (3, 2, 1), (3, 2, 3), (258, 1, 3), (258, 257, 1)] {
        unshard_refusals(run, &poplar_inst(bits, level, np));
    }
    unshard_refusals(run, &prio3_inst(histogram_case::<Field128>(3, 1), 3, false));
    unshard_refusals(run, &prio3_inst(sumvec_case::<Field128>(255, 2, 2), 2, false));
    unshard_refusals(run, &prio3_inst(count_case::<Field64>(), 1, false));
    unshard_refusals(run, &prio2_inst(3));
    // all work items of all instances, heaviest first, over one pool of workers
    let mut items: Vec<(usize, Item)> = vec![];
    let mut batch_base: Vec<usize> = vec![];
    let mut nbatches = 0usize;
    for (ii, inst) in insts.iter().enumerate() {
        batch_base.push(nbatches);
        nbatches += inst.batches().len();
        for (bi, b) in inst.batches().iter().enumerate() {
            for t in 0..b.tups.len() {
                items.push((cost(b.cfg.k) * if b.cfg.label == "chain" { 1 } else { 8 }, Item::Tuple { inst: ii as u32, batch: bi as u32, t: t as u32 }));
            }
        }
        let na = inst.algebra_items();
        let mut s = 0;
        while s < na {
            let e = (s + 2048).min(na);
            items.push((2048 * 10, Item::Algebra { inst: ii as u32, start: s, end: e }));
            s = e;
        }
    }
    items.sort_by(|a, b| b.0.cmp(&a.0)); // stable: enumeration order within equal weight
    let failmap: FailMap = Mutex::new(BTreeMap::new());
    let accs = par::fold(
        items.len() as u64,
        1,
        || (0..nbatches).map(|_| Tot::default()).collect::<Vec<Tot>>(),
        |acc, ix| {
            let report = |order: (u32, u32, u64)| {
                let failmap = &failmap;
                move |key: &str, what: &str, case: serde_json::Value| {
                    let mut g = failmap.lock().unwrap();
                    match g.get(key) {
                        Some((o, _, _)) if *o <= order => {}
                        _ => {
                            g.insert(key.to_string(), (order, what.to_string(), case));
                        }
                    }
                }
            };
            match &items[ix as usize].1 {
                Item::Tuple { inst, batch, t } => {
                    let tot = &mut acc[batch_base[*inst as usize] + *batch as usize];
                    insts[*inst as usize].run_tuple(&report((*inst, *batch, *t as u64)), *batch as usize, *t as usize, tot);
                }
                Item::Algebra { inst, start, end } => {
                    for i in *start..*end {
                        insts[*inst as usize].run_algebra(&report((*inst, u32::MAX, i)), i);
                    }
                }
            }
        },
    );
    for (key, (_, what, case)) in failmap.into_inner().unwrap() {
        run.fail(&key, &what, case);
    }
    let mut rows = vec![];
    let mut algebra_by_inst = serde_json::Map::new();
    for (ii, inst) in insts.iter().enumerate() {
        for (bi, b) in inst.batches().iter().enumerate() {
            let mut t = Tot::default();
            for a in &accs {
                let x = &a[batch_base[ii] + bi];
                t.states += x.states;
                t.transitions += x.transitions;
                t.refused += x.refused;
                t.one_shot += x.one_shot;
                t.unshards += x.unshards;
                t.identity += x.identity;
                t.terminal_states += x.terminal_states;
                t.max_depth = t.max_depth.max(x.max_depth);
            }
            run.count("states", t.states);
            run.count("transitions", t.transitions);
            run.count("refused_actions", t.refused);
            run.count("one_shot_aggregates", t.one_shot);
            run.count("unshard_calls", t.unshards);
            run.count("identity_merges", t.identity);
            run.count("terminal_aggregates", t.terminal_states);
            run.count("share_tuples", b.tups.len() as u64);
            run.count("evaluations", t.transitions + t.refused + t.one_shot + t.unshards);
            run.distinct_many(b.tups.iter().take(50_000).map(|tp| fnv(format!("{}/{}/{}/{:?}", inst.name(), b.cfg.k, b.cfg.label, tp).as_bytes())));
            rows.push(json!({"instance": inst.name(), "k": b.cfg.k, "mode": b.cfg.label, "share_tuples": b.tups.len(), "all_tuples_of_alphabet": b.full,
                "alphabet_size": inst.alphabet(), "states": t.states, "transitions": t.transitions, "max_depth": t.max_depth,
                "refused_actions": t.refused, "one_shot_aggregates": t.one_shot, "unshard_calls": t.unshards}));
        }
        let na = inst.algebra_items();
        if na > 0 {
            run.count("algebra_triples", na);
            run.count("evaluations", na * 10);
            algebra_by_inst.insert(inst.name().to_string(), json!(na));
        }
    }
    for r in rows.iter().filter(|r| r["k"].as_u64().unwrap() >= 3).step_by((rows.len() / 24).max(1)).take(12) {
        run.sample(r.clone());
    }
    run.note("searches", json!(rows));
    run.note("algebra_triples_by_instance", serde_json::Value::Object(algebra_by_inst));

    run.rule("per (VDAF instance, k): explicit-state search from the empty state over all states reachable with actions {aggregate_init, From<OutputShare>, accumulate(unused share -> any aggregate), merge(any aggregate -> any other)}, <= k+1 live aggregates of which <= 2 empty (mode tree, k = 0..4 quick / 0..5 thorough) or <= 2 live (mode chain, k = 6 quick / 6,7 thorough); share tuples = all n^k tuples of the alphabet when within the budget, else the strided family (i + j*s mod n); alphabet: L=1: {0,1,p-1,p-2,(p-1)/2} (all residues for Prio3 Count over GF(17) and GF(97)), L=2: all 25 pairs of those, L=3: 12 listed triples; in every state: every aggregate = reference subset sum (encoding, kind and elements), every ill-shaped operand refused without modification (both directions), every aggregate covering the whole batch unsharded together with a fixed aggregate share of a second aggregator and compared with the single pass and the reference total; one-shot aggregate() for every ordered subset; all triples of the L=1 alphabets in 10 groupings");
    run.assume("canonical state = sorted (subset mask, kind tag, library encoding) of the live aggregates; two aggregates with equal kind and encoding are assumed to behave identically in the future (the types hold nothing but the element vector)");
    run.assume("deployed fields are exercised on the listed extreme residues only; all residues only over GF(17) and GF(97) through the same generic code");
    run.exhaustive(true);
    run.finish();
}
