//! Engines shared by the per-property binaries. Nothing in here depends on `prio`.
pub mod bfs;
pub mod choices;
pub mod par;
pub mod run;
pub mod tape;

pub use run::{Level, Run, Tier};

/// FNV-1a 64-bit, used for cheap distinct-case hashing.
pub fn fnv(data: &[u8]) -> u64 {
    let mut h: u64 = 0xcbf29ce484222325;
    for b in data {
        h ^= *b as u64;
        h = h.wrapping_mul(0x100000001b3);
    }
    h
}

/// splitmix64 step, the only PRNG used for the *seeded part of alphabets*.
pub fn splitmix(state: &mut u64) -> u64 {
    *state = state.wrapping_add(0x9E3779B97F4A7C15);
    let mut z = *state;
    z = (z ^ (z >> 30)).wrapping_mul(0xBF58476D1CE4E5B9);
    z = (z ^ (z >> 27)).wrapping_mul(0x94D049BB133111EB);
    z ^ (z >> 31)
}

pub fn hex(b: &[u8]) -> String {
    let mut s = String::with_capacity(b.len() * 2);
    for x in b {
        s.push_str(&format!("{:02x}", x));
    }
    s
}

pub fn unhex(s: &str) -> Vec<u8> {
    (0..s.len() / 2)
        .map(|i| u8::from_str_radix(&s[2 * i..2 * i + 2], 16).expect("bad hex"))
        .collect()
}

thread_local! {
    static IN_CATCH: std::cell::Cell<u32> = const { std::cell::Cell::new(0) };
}

/// Run `f`, turning a panic into `Err(message)`.
pub fn catch<T>(f: impl FnOnce() -> T) -> Result<T, String> {
    IN_CATCH.with(|c| c.set(c.get() + 1));
    let r = std::panic::catch_unwind(std::panic::AssertUnwindSafe(f));
    IN_CATCH.with(|c| c.set(c.get() - 1));
    match r {
        Ok(v) => Ok(v),
        Err(e) => {
            let msg = if let Some(s) = e.downcast_ref::<&str>() {
                s.to_string()
            } else if let Some(s) = e.downcast_ref::<String>() {
                s.clone()
            } else {
                "non-string panic".to_string()
            };
            Err(msg)
        }
    }
}

/// Silence the panic printer for panics inside `catch` (expected outcomes). A panic anywhere else:
///  * raised by LIBRARY code (location under the repository root), i.e. in a call the harness makes
///    without a guard because on the unchanged tree it never panics (honest sharding, encoding of
///    honest values, reference instances, ...), or an `unwrap`/`expect` of the harness on the result
///    of such a call: the library's behaviour on an honest call has changed — a verdict (VIOLATION
///    with the panic location as the case key, exit 1);
///  * anything else is a harness bug: print it and exit 2 (machinery failure, never a verdict).
pub fn quiet_panics_for(id: &'static str) {
    let id = id.to_string();
    std::panic::set_hook(Box::new(move |info| {
        if IN_CATCH.with(|c| c.get()) != 0 {
            return;
        }
        let root = std::env::var("VERIF_REPO").unwrap_or_else(|_| "/repo".into());
        let (file, line) = info.location().map(|l| (l.file().to_string(), l.line())).unwrap_or_default();
        let text = format!("{info}");
        let in_library = file.starts_with(&format!("{root}/")) || file.starts_with("/repo/");
        let honest_unwrap = text.contains("called `Result::unwrap()` on an `Err` value") || text.contains("called `Option::unwrap()` on a `None` value");
        if in_library || honest_unwrap {
            let rel = file.trim_start_matches(root.as_str()).trim_start_matches("/repo").trim_start_matches('/').to_string();
            let key = if in_library { format!("library_panic/{rel}") } else { format!("honest_call_failed/{rel}:{line}") };
            let what = if in_library {
                format!("library code panicked in a call that never panics on the unchanged tree (an honest, unguarded call of the check): {}", text.replace('\n', " "))
            } else {
                format!("a library call that always succeeds on the unchanged tree (honest arguments) returned an error/None: {}", text.replace('\n', " "))
            };
            let path = format!("/verif/replays/{}-{:016x}.json", id, fnv(key.as_bytes()));
            let _ = std::fs::create_dir_all("/verif/replays");
            let _ = std::fs::write(&path, format!("{{\"property\": {:?}, \"key\": {:?}, \"what\": {:?}, \"replay\": \"./check {} quick\"}}", id, key, what, id));
            println!("VIOLATION property={} replay={}", id, path);
            println!("  what: {}", what);
            eprintln!("(run aborted at the first unguarded failure; evidence file not rewritten)");
            std::process::exit(1);
        }
        eprintln!("MACHINERY: harness panic: {info}");
        std::process::exit(2);
    }));
}

/// As [`quiet_panics_for`] without a property (worker subprocesses): any unguarded panic is a machinery failure.
pub fn quiet_panics() {
    std::panic::set_hook(Box::new(|info| {
        if IN_CATCH.with(|c| c.get()) == 0 {
            eprintln!("MACHINERY: harness panic: {info}");
            std::process::exit(2);
        }
    }));
}
