//! Engines shared by the per-property binaries. Nothing in here depends on `prio`.
pub mod bfs;
pub mod choices;
pub mod par;
pub mod run;
pub mod tape;

pub use run::{Level, Run, Tier};

/// FNV-1a 64-bit, used for cheap distinct-case hashing.
pub fn fnv(data: &[u8]) -> u64 {
    let mut h: u64 = 0xcbf29ce484222325;
    for b in data {
        h ^= *b as u64;
        h = h.wrapping_mul(0x100000001b3);
    }
    h
}

/// splitmix64 step, the only PRNG used for the *seeded part of alphabets*.
pub fn splitmix(state: &mut u64) -> u64 {
    *state = state.wrapping_add(0x9E3779B97F4A7C15);
    let mut z = *state;
    z = (z ^ (z >> 30)).wrapping_mul(0xBF58476D1CE4E5B9);
    z = (z ^ (z >> 27)).wrapping_mul(0x94D049BB133111EB);
    z ^ (z >> 31)
}

pub fn hex(b: &[u8]) -> String {
    let mut s = String::with_capacity(b.len() * 2);
    for x in b {
        s.push_str(&format!("{:02x}", x));
    }
    s
}

pub fn unhex(s: &str) -> Vec<u8> {
    (0..s.len() / 2)
        .map(|i| u8::from_str_radix(&s[2 * i..2 * i + 2], 16).expect("bad hex"))
        .collect()
}

thread_local! {
    static IN_CATCH: std::cell::Cell<u32> = const { std::cell::Cell::new(0) };
}

/// Run `f`, turning a panic into `Err(message)`.
pub fn catch<T>(f: impl FnOnce() -> T) -> Result<T, String> {
    IN_CATCH.with(|c| c.set(c.get() + 1));
    let r = std::panic::catch_unwind(std::panic::AssertUnwindSafe(f));
    IN_CATCH.with(|c| c.set(c.get() - 1));
    match r {
        Ok(v) => Ok(v),
        Err(e) => {
            let msg = if let Some(s) = e.downcast_ref::<&str>() {
                s.to_string()
            } else if let Some(s) = e.downcast_ref::<String>() {
                s.clone()
            } else {
                "non-string panic".to_string()
            };
            Err(msg)
        }
    }
}

/// Silence the panic printer for panics inside `catch` (expected outcomes); a panic anywhere else
/// is a harness bug: print it and exit 2 (machinery failure, never a verdict).
pub fn quiet_panics() {
    std::panic::set_hook(Box::new(|info| {
        if IN_CATCH.with(|c| c.get()) == 0 {
            eprintln!("MACHINERY: harness panic: {info}");
            std::process::exit(2);
        }
    }));
}
