//! Explicit-state breadth-first search. States are canonical byte strings; the transition
//! function is supplied by the property binary and calls the real library.
use std::collections::{HashMap, VecDeque};

pub struct BfsStats {
    pub states: u64,
    pub transitions: u64,
    pub max_depth: usize,
    pub truncated: bool,
}

/// `step(state, depth) -> Vec<(label, next_state)>`; `inv(state) -> Result<(), String>`.
/// Returns stats and the first invariant failure as (trace of labels, message).
pub fn bfs<S, St, Inv>(
    init: Vec<S>,
    max_depth: usize,
    max_states: u64,
    canon: impl Fn(&S) -> Vec<u8>,
    mut step: St,
    mut inv: Inv,
) -> (BfsStats, Option<(Vec<String>, String)>)
where
    S: Clone,
    St: FnMut(&S, usize) -> Vec<(String, S)>,
    Inv: FnMut(&S) -> Result<(), String>,
{
    let mut seen: HashMap<Vec<u8>, (Option<Vec<u8>>, String)> = HashMap::new();
    let mut q: VecDeque<(S, usize)> = VecDeque::new();
    let mut stats = BfsStats { states: 0, transitions: 0, max_depth: 0, truncated: false };
    let trace = |seen: &HashMap<Vec<u8>, (Option<Vec<u8>>, String)>, mut k: Vec<u8>| {
        let mut out = vec![];
        while let Some((parent, label)) = seen.get(&k) {
            out.push(label.clone());
            match parent {
                Some(p) => k = p.clone(),
                None => break,
            }
        }
        out.reverse();
        out
    };
    for s in init {
        let k = canon(&s);
        if !seen.contains_key(&k) {
            seen.insert(k.clone(), (None, "init".into()));
            stats.states += 1;
            if let Err(m) = inv(&s) {
                return (stats, Some((trace(&seen, k), m)));
            }
            q.push_back((s, 0));
        }
    }
    while let Some((s, d)) = q.pop_front() {
        stats.max_depth = stats.max_depth.max(d);
        if d >= max_depth {
            continue;
        }
        let ks = canon(&s);
        for (label, n) in step(&s, d) {
            stats.transitions += 1;
            let kn = canon(&n);
            if seen.contains_key(&kn) {
                continue;
            }
            seen.insert(kn.clone(), (Some(ks.clone()), label));
            stats.states += 1;
            if let Err(m) = inv(&n) {
                return (stats, Some((trace(&seen, kn), m)));
            }
            if stats.states >= max_states {
                stats.truncated = true;
                return (stats, None);
            }
            q.push_back((n, d + 1));
        }
    }
    (stats, None)
}
