//! Stateless choice-tape explorer (deviation-bounded DFS with prefix replay).
//!
//! The subject is a closure run from scratch for every choice sequence. Whenever it needs an
//! environment answer it calls `Chooser::choose(arity)`; answer 0 is the default. The explorer
//! enumerates all sequences with at most `bound` non-default answers ("deviations"), iterating the
//! bound 0,1,2,…; a sequence is a replayed prefix followed by default answers. An arity mismatch
//! while replaying a prefix means the subject is not deterministic in its choices: hard error.
use std::cell::RefCell;

#[derive(Default)]
pub struct Chooser {
    prefix: Vec<u32>,
    pub taken: Vec<u32>,
    pub arities: Vec<u32>,
    pub diverged: bool,
}

impl Chooser {
    pub fn new(prefix: Vec<u32>) -> Self {
        Chooser { prefix, taken: vec![], arities: vec![], diverged: false }
    }
    /// Returns a value in `0..arity`.
    pub fn choose(&mut self, arity: u32) -> u32 {
        assert!(arity >= 1);
        let i = self.taken.len();
        let c = if i < self.prefix.len() {
            let c = self.prefix[i];
            if c >= arity {
                self.diverged = true;
                0
            } else {
                c
            }
        } else {
            0
        };
        self.taken.push(c);
        self.arities.push(arity);
        c
    }
    pub fn flip(&mut self) -> bool {
        self.choose(2) == 1
    }
}

thread_local! {
    /// Thread-local chooser for oracles that are reached through code that cannot carry a handle
    /// (e.g. the patched rayon).
    pub static TL_CHOOSER: RefCell<Option<Chooser>> = const { RefCell::new(None) };
}

pub struct Stats {
    pub executions: u64,
    pub max_depth: usize,
    pub completed_bound: u32,
    pub truncated: bool,
}

/// Explore all choice sequences with ≤ `bound` deviations (`u32::MAX` = unbounded) of `subject`,
/// in order of increasing deviation count (all 0-deviation runs, then 1, then 2, …), so the first
/// failure found has the fewest deviations. `max_exec` caps the number of executions; when the cap
/// is hit `truncated` is set and `completed_bound` is the last deviation level fully explored.
pub fn explore<F: FnMut(&mut Chooser)>(bound: u32, max_exec: u64, mut subject: F) -> Stats {
    let mut stats = Stats { executions: 0, max_depth: 0, completed_bound: 0, truncated: false };
    let mut level: Vec<Vec<u32>> = vec![vec![]];
    let mut d: u32 = 0;
    loop {
        let mut next: Vec<Vec<u32>> = vec![];
        for prefix in level.drain(..) {
            if stats.executions >= max_exec {
                stats.truncated = true;
                stats.completed_bound = d.saturating_sub(1);
                return stats;
            }
            let plen = prefix.len();
            let mut ch = Chooser::new(prefix);
            subject(&mut ch);
            if ch.diverged {
                eprintln!("choice explorer: arity mismatch while replaying a prefix (nondeterministic subject)");
                std::process::exit(2);
            }
            assert!(ch.taken.len() >= plen, "subject consumed fewer choices than the replayed prefix");
            stats.executions += 1;
            stats.max_depth = stats.max_depth.max(ch.taken.len());
            if d < bound {
                for i in plen..ch.taken.len() {
                    for alt in 1..ch.arities[i] {
                        let mut p = ch.taken[..i].to_vec();
                        p.push(alt);
                        next.push(p);
                    }
                }
            }
        }
        stats.completed_bound = d;
        if next.is_empty() || d >= bound {
            return stats;
        }
        level = next;
        d += 1;
    }
}
