//! Deterministic randomness tapes (the alphabet of "random" inputs) and a scripted Rng.
use rand_core::TryRng;
use std::convert::Infallible;

use super::splitmix;

/// Named byte tapes. Structured tapes first (simplest first), then `n_seeded` seeded ones.
pub fn tape_alphabet(seed: u64, n_seeded: usize) -> Vec<(String, Tape)> {
    let mut v = vec![
        ("zero".to_string(), Tape::Const(0)),
        ("ff".to_string(), Tape::Const(0xff)),
        ("counter".to_string(), Tape::Counter),
    ];
    for i in 0..n_seeded {
        v.push((format!("seeded{}", i), Tape::Seeded(seed.wrapping_mul(0x1000).wrapping_add(i as u64))));
    }
    v
}

#[derive(Clone, Debug)]
pub enum Tape {
    Const(u8),
    Counter,
    Seeded(u64),
}

impl Tape {
    /// `n` bytes of this tape starting at offset 0, salted by `salt` (so distinct uses differ).
    pub fn bytes(&self, salt: u64, n: usize) -> Vec<u8> {
        match self {
            Tape::Const(b) => vec![*b; n],
            Tape::Counter => (0..n).map(|i| (i as u64).wrapping_add(salt) as u8).collect(),
            Tape::Seeded(s) => {
                let mut st = s ^ salt.wrapping_mul(0xD6E8FEB86659FD93);
                let mut out = Vec::with_capacity(n + 8);
                while out.len() < n {
                    out.extend_from_slice(&splitmix(&mut st).to_le_bytes());
                }
                out.truncate(n);
                out
            }
        }
    }

    pub fn array<const N: usize>(&self, salt: u64) -> [u8; N] {
        let mut a = [0u8; N];
        a.copy_from_slice(&self.bytes(salt, N));
        a
    }
}

/// An Rng that replays a byte script, then a filler byte pattern; counts consumption.
pub struct ScriptRng {
    pub script: Vec<u8>,
    pub pos: usize,
    pub filler: Tape,
    pub reads: Vec<usize>,
}

impl ScriptRng {
    pub fn new(script: Vec<u8>, filler: Tape) -> Self {
        ScriptRng { script, pos: 0, filler, reads: vec![] }
    }
    fn byte_at(&self, i: usize) -> u8 {
        if i < self.script.len() {
            self.script[i]
        } else {
            match &self.filler {
                Tape::Const(b) => *b,
                Tape::Counter => i as u8,
                Tape::Seeded(s) => {
                    let mut st = s.wrapping_add((i / 8) as u64);
                    splitmix(&mut st).to_le_bytes()[i % 8]
                }
            }
        }
    }
}

impl TryRng for ScriptRng {
    type Error = Infallible;
    fn try_next_u32(&mut self) -> Result<u32, Infallible> {
        let mut b = [0u8; 4];
        self.try_fill_bytes(&mut b)?;
        Ok(u32::from_le_bytes(b))
    }
    fn try_next_u64(&mut self) -> Result<u64, Infallible> {
        let mut b = [0u8; 8];
        self.try_fill_bytes(&mut b)?;
        Ok(u64::from_le_bytes(b))
    }
    fn try_fill_bytes(&mut self, dst: &mut [u8]) -> Result<(), Infallible> {
        self.reads.push(dst.len());
        for d in dst.iter_mut() {
            *d = self.byte_at(self.pos);
            self.pos += 1;
        }
        Ok(())
    }
}
