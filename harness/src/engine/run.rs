//! Per-run bookkeeping: tier/seed parsing, counters, samples, violations, known findings,
//! evidence file, exit code.
use serde_json::{json, Map, Value};
use std::collections::{BTreeMap, HashSet};
use std::sync::Mutex;
use std::time::Instant;

#[derive(Clone, Copy, PartialEq, Eq, Debug)]
pub enum Tier {
    Quick,
    Thorough,
}

#[derive(Clone, Copy, PartialEq, Eq, Debug)]
pub enum Level {
    Exploration,
    FaultEnumeration,
    ModelChecking,
}

impl Level {
    fn as_str(&self) -> &'static str {
        match self {
            Level::Exploration => "exploration",
            Level::FaultEnumeration => "fault_enumeration",
            Level::ModelChecking => "model_checking",
        }
    }
}

const VERIF_ROOT: &str = "/verif";

struct Inner {
    counters: BTreeMap<String, u64>,
    distinct: HashSet<u64>,
    samples: Vec<Value>,
    sample_cap: usize,
    violations: Vec<(String, String)>,
    known_hits: Vec<(String, String)>,
    assumptions: Vec<String>,
    notes: Map<String, Value>,
    rule: String,
    exhaustive: bool,
    reported_keys: HashSet<String>,
}

pub struct Run {
    pub id: String,
    pub tier: Tier,
    pub seed: u64,
    pub level: Level,
    pub replay: Option<String>,
    pub replay_key: Option<String>,
    start: Instant,
    known: Vec<(String, String, String)>, // (key, status, description)
    inner: Mutex<Inner>,
}

impl Run {
    /// Parse `argv`: `<quick|thorough> [--replay <path>]`; seed from VERIF_SEED.
    pub fn from_args(id: &str, level: Level) -> Run {
        let args: Vec<String> = std::env::args().collect();
        let mut tier = match std::env::var("VERIF_TIER").ok().as_deref() {
            Some("thorough") => Tier::Thorough,
            _ => Tier::Quick,
        };
        let mut replay = None;
        let mut i = 1;
        while i < args.len() {
            match args[i].as_str() {
                "quick" => tier = Tier::Quick,
                "thorough" => tier = Tier::Thorough,
                "--replay" => {
                    i += 1;
                    replay = Some(args.get(i).expect("--replay needs a path").clone());
                }
                other => {
                    eprintln!("unknown argument {other}");
                    std::process::exit(2);
                }
            }
            i += 1;
        }
        let mut seed = std::env::var("VERIF_SEED")
            .ok()
            .and_then(|s| s.parse::<u64>().ok())
            .unwrap_or(1);
        // Replay: every check is deterministic in (tier, seed), and a failing case is identified by
        // its key; replaying = re-running under the recorded tier/seed and reporting only that key.
        let mut replay_key = None;
        if let Some(p) = &replay {
            let s = std::fs::read_to_string(p).unwrap_or_else(|e| {
                eprintln!("cannot read replay {p}: {e}");
                std::process::exit(2)
            });
            let v: Value = serde_json::from_str(&s).expect("bad replay json");
            if v["tier"].as_str() == Some("thorough") {
                tier = Tier::Thorough;
            } else {
                tier = Tier::Quick;
            }
            seed = v["seed"].as_u64().unwrap_or(seed);
            replay_key = v["key"].as_str().map(String::from);
            eprintln!("replay: re-running {} tier={:?} seed={} for case key {:?}", id, tier, seed, replay_key);
        }
        let known = load_known(id);
        super::quiet_panics_for(Box::leak(id.to_string().into_boxed_str()));
        Run {
            id: id.to_string(),
            tier,
            seed,
            level,
            replay,
            replay_key,
            start: Instant::now(),
            known,
            inner: Mutex::new(Inner {
                counters: BTreeMap::new(),
                distinct: HashSet::new(),
                samples: Vec::new(),
                sample_cap: 12,
                violations: Vec::new(),
                known_hits: Vec::new(),
                assumptions: Vec::new(),
                notes: Map::new(),
                rule: String::new(),
                exhaustive: false,
                reported_keys: HashSet::new(),
            }),
        }
    }

    pub fn quick(&self) -> bool {
        self.tier == Tier::Quick
    }

    /// `q` for the quick tier, `t` for the thorough tier.
    pub fn pick<T>(&self, q: T, t: T) -> T {
        if self.quick() {
            q
        } else {
            t
        }
    }

    pub fn elapsed(&self) -> f64 {
        self.start.elapsed().as_secs_f64()
    }

    pub fn count(&self, name: &str, n: u64) {
        let mut g = self.inner.lock().unwrap();
        *g.counters.entry(name.to_string()).or_insert(0) += n;
    }

    pub fn get(&self, name: &str) -> u64 {
        *self.inner.lock().unwrap().counters.get(name).unwrap_or(&0)
    }

    /// Register a distinct non-trivial case by hash.
    pub fn distinct(&self, h: u64) {
        self.inner.lock().unwrap().distinct.insert(h);
    }

    pub fn distinct_many(&self, hs: impl IntoIterator<Item = u64>) {
        let mut g = self.inner.lock().unwrap();
        for h in hs {
            g.distinct.insert(h);
        }
    }

    pub fn sample(&self, v: Value) {
        let mut g = self.inner.lock().unwrap();
        if g.samples.len() < g.sample_cap {
            g.samples.push(v);
        }
    }

    pub fn set_sample_cap(&self, n: usize) {
        self.inner.lock().unwrap().sample_cap = n;
    }

    pub fn assume(&self, s: &str) {
        let mut g = self.inner.lock().unwrap();
        if !g.assumptions.iter().any(|a| a == s) {
            g.assumptions.push(s.to_string());
        }
    }

    pub fn note(&self, k: &str, v: Value) {
        self.inner.lock().unwrap().notes.insert(k.to_string(), v);
    }

    pub fn rule(&self, s: &str) {
        self.inner.lock().unwrap().rule = s.to_string();
    }

    pub fn exhaustive(&self, b: bool) {
        self.inner.lock().unwrap().exhaustive = b;
    }

    pub fn n_violations(&self) -> usize {
        self.inner.lock().unwrap().violations.len()
    }

    /// Report a failing case. `key` identifies the failing input/call site (stable across runs):
    /// if it matches an *open* entry of /verif/known_findings.json the case is printed as a
    /// KNOWN-FINDING and does not affect the exit code; otherwise it is a VIOLATION with a replay
    /// file. Only the first case per key is written out.
    pub fn fail(&self, key: &str, what: &str, case: Value) {
        if let Some(rk) = &self.replay_key {
            if rk != key {
                return;
            }
        }
        let mut g = self.inner.lock().unwrap();
        if !g.reported_keys.insert(key.to_string()) {
            return;
        }
        if let Some((k, _, _)) = self
            .known
            .iter()
            .find(|(k, status, _)| status == "open" && key_matches(k, key))
        {
            println!("KNOWN-FINDING: property={} {} [{}]", self.id, what, k);
            g.known_hits.push((key.to_string(), what.to_string()));
            return;
        }
        let path = format!(
            "{}/replays/{}-{:016x}.json",
            VERIF_ROOT,
            self.id,
            super::fnv(key.as_bytes())
        );
        let body = json!({
            "property": self.id,
            "key": key,
            "tier": if self.tier == Tier::Quick { "quick" } else { "thorough" },
            "seed": self.seed,
            "what": what,
            "case": case,
            "replay": format!("./check {} --replay {}", self.id, path),
        });
        if self.replay.is_none() {
            let _ = std::fs::create_dir_all(format!("{}/replays", VERIF_ROOT));
            let _ = std::fs::write(&path, serde_json::to_string_pretty(&body).unwrap());
        }
        println!("VIOLATION property={} replay={}", self.id, path);
        println!("  what: {}", what);
        g.violations.push((key.to_string(), what.to_string()));
    }

    /// Write the evidence file and exit (0 = held, 1 = violation).
    pub fn finish(&self) -> ! {
        let g = self.inner.lock().unwrap();
        let wall = self.start.elapsed().as_secs_f64();
        let mut cov = Map::new();
        for (k, v) in &g.counters {
            cov.insert(k.clone(), json!(v));
        }
        if !cov.contains_key("evaluations") {
            cov.insert("evaluations".into(), json!(0));
        }
        cov.insert("distinct_nontrivial".into(), json!(g.distinct.len() as u64));
        cov.insert("rule".into(), json!(g.rule));
        cov.insert("samples".into(), Value::Array(g.samples.clone()));
        cov.insert("exhaustive".into(), json!(g.exhaustive));
        if self.level == Level::ModelChecking {
            let tr = cov.get("transitions").and_then(|v| v.as_u64()).unwrap_or(0);
            if !cov.contains_key("traces_validated_against_impl") {
                cov.insert("traces_validated_against_impl".into(), json!(tr));
            }
        }
        for (k, v) in &g.notes {
            cov.insert(k.clone(), v.clone());
        }
        cov.insert(
            "known_findings_seen".into(),
            json!(g.known_hits.iter().map(|(k, _)| k.clone()).collect::<Vec<_>>()),
        );
        let ev = json!({
            "property_id": self.id,
            "tier": if self.tier == Tier::Quick { "quick" } else { "thorough" },
            "seed": self.seed,
            "level": self.level.as_str(),
            "coverage": Value::Object(cov),
            "assumptions": g.assumptions,
            "wall_s": (wall * 1000.0).round() / 1000.0,
            "violations": g.violations.len(),
        });
        if self.replay.is_none() {
            let dir = std::env::var("VERIF_EVIDENCE_DIR").unwrap_or(format!("{}/evidence", VERIF_ROOT));
            let _ = std::fs::create_dir_all(&dir);
            let path = format!("{}/{}.json", dir, self.id);
            std::fs::write(&path, serde_json::to_string_pretty(&ev).unwrap())
                .expect("cannot write evidence");
        }
        let nv = g.violations.len();
        println!(
            "{} {} seed={} wall={:.1}s violations={} known_findings={} distinct={}",
            self.id,
            if self.tier == Tier::Quick { "quick" } else { "thorough" },
            self.seed,
            wall,
            nv,
            g.known_hits.len(),
            g.distinct.len()
        );
        for (k, v) in &g.counters {
            println!("  {k} = {v}");
        }
        std::process::exit(if nv == 0 { 0 } else { 1 });
    }

    /// Load the `case` object of a replay file.
    pub fn replay_case(&self) -> Option<(String, Value)> {
        let p = self.replay.as_ref()?;
        let s = std::fs::read_to_string(p).unwrap_or_else(|e| {
            eprintln!("cannot read replay {p}: {e}");
            std::process::exit(2)
        });
        let v: Value = serde_json::from_str(&s).expect("bad replay json");
        Some((v["key"].as_str().unwrap_or("").to_string(), v["case"].clone()))
    }
}

fn key_matches(pattern: &str, key: &str) -> bool {
    // exact match, or a pattern ending in '*' matching a prefix
    if let Some(p) = pattern.strip_suffix('*') {
        key.starts_with(p)
    } else {
        pattern == key
    }
}

fn load_known(id: &str) -> Vec<(String, String, String)> {
    let path = format!("{}/known_findings.json", VERIF_ROOT);
    let Ok(s) = std::fs::read_to_string(&path) else {
        return vec![];
    };
    let v: Value = match serde_json::from_str(&s) {
        Ok(v) => v,
        Err(e) => {
            eprintln!("known_findings.json unreadable: {e}");
            std::process::exit(2);
        }
    };
    let mut out = vec![];
    if let Some(arr) = v["findings"].as_array() {
        for f in arr {
            let props: Vec<String> = match &f["property"] {
                Value::String(s) => vec![s.clone()],
                Value::Array(a) => a.iter().filter_map(|x| x.as_str().map(String::from)).collect(),
                _ => vec![],
            };
            if !props.iter().any(|p| p == id) {
                continue;
            }
            let status = f["status"].as_str().unwrap_or("open").to_string();
            let desc = f["what"].as_str().unwrap_or("").to_string();
            if let Some(keys) = f["keys"].as_array() {
                for k in keys {
                    if let Some(k) = k.as_str() {
                        out.push((k.to_string(), status.clone(), desc.clone()));
                    }
                }
            }
        }
    }
    out
}
