//! Sharded parallel enumeration over an index space.
use std::sync::atomic::{AtomicU64, Ordering};

pub fn threads() -> usize {
    std::env::var("VERIF_THREADS")
        .ok()
        .and_then(|s| s.parse().ok())
        .unwrap_or_else(|| std::thread::available_parallelism().map(|n| n.get()).unwrap_or(8))
}

/// Call `f(i)` for every `i in 0..n` on all cores (dynamic chunks). `f` must be deterministic in `i`.
pub fn for_each<F: Fn(u64) + Sync>(n: u64, f: F) {
    for_each_chunked(n, 1, f)
}

pub fn for_each_chunked<F: Fn(u64) + Sync>(n: u64, chunk: u64, f: F) {
    let next = AtomicU64::new(0);
    let nt = threads().min(n.max(1) as usize).max(1);
    std::thread::scope(|s| {
        for _ in 0..nt {
            s.spawn(|| loop {
                let start = next.fetch_add(chunk, Ordering::Relaxed);
                if start >= n {
                    break;
                }
                for i in start..(start + chunk).min(n) {
                    f(i);
                }
            });
        }
    });
}

/// Map-reduce variant: each worker folds into its own accumulator; accumulators are returned.
pub fn fold<A: Send, F: Fn(&mut A, u64) + Sync, I: Fn() -> A + Sync>(
    n: u64,
    chunk: u64,
    init: I,
    f: F,
) -> Vec<A> {
    let next = AtomicU64::new(0);
    let nt = threads().min(n.max(1) as usize).max(1);
    let mut out = Vec::new();
    std::thread::scope(|s| {
        let mut hs = Vec::new();
        for _ in 0..nt {
            hs.push(s.spawn(|| {
                let mut acc = init();
                loop {
                    let start = next.fetch_add(chunk, Ordering::Relaxed);
                    if start >= n {
                        break;
                    }
                    for i in start..(start + chunk).min(n) {
                        f(&mut acc, i);
                    }
                }
                acc
            }));
        }
        for h in hs {
            out.push(h.join().expect("worker panicked"));
        }
    });
    out
}
