//! Catalogue of the shipped FLP circuits with their *specification-level* validity predicates
//! (plain integer/field predicates over the encoded input, independent of the circuit code).
use super::ints::{addmod, mulmod, IntConv, KitField};
use prio::flp::gadgets::{Mul, ParallelSum, PolyEval};
use prio::flp::types::{Count, Histogram, L1BoundSum, MultihotCountVec, Sum, SumVec};
use prio::flp::{Flp, FlpError, Gadget, Type};
use std::marker::PhantomData;

#[derive(Clone, Debug, PartialEq, Eq)]
pub enum Spec {
    Count,
    Sum { max: u128 },
    SumVec { max: u128, len: usize, chunk: usize },
    Histogram { len: usize, chunk: usize },
    Multihot { len: usize, max_weight: usize, chunk: usize },
    L1 { max: u128, len: usize, chunk: usize },
    /// harness-defined: x(x-1)(x-2) = 0 on each of `len` inputs, one PolyEval(deg 3) gadget
    Deg3 { len: usize },
    /// harness-defined circuit with TWO gadgets (Mul, then PolyEval(x^2-x)): input (x0, x1), outputs
    /// [Mul(x0,x0)-x0, P(x1)]; valid iff both are bits. Exercises the multi-gadget paths of the FLP.
    TwoGadget,
}

fn bits_of(max: u128) -> usize {
    (128 - max.leading_zeros()) as usize
}

impl Spec {
    pub fn name(&self) -> String {
        format!("{:?}", self)
    }
    fn dec(bits: &[u128], max: u128, p: u128) -> u128 {
        // decode_range_checked_int: sum 2^i b_i + last_weight*b_last  (mod p)
        let n = bits.len();
        let last_weight = max - ((1u128 << (n - 1)) - 1);
        let mut s = 0u128;
        for (i, b) in bits[..n - 1].iter().enumerate() {
            s = addmod(s, mulmod((1u128 << i) % p, *b, p), p);
        }
        addmod(s, mulmod(last_weight % p, bits[n - 1], p), p)
    }
    pub fn input_len(&self) -> usize {
        match self {
            Spec::Count => 1,
            Spec::Sum { max } => bits_of(*max),
            Spec::SumVec { max, len, .. } => bits_of(*max) * len,
            Spec::Histogram { len, .. } => *len,
            Spec::Multihot { len, max_weight, .. } => len + bits_of(*max_weight as u128),
            Spec::L1 { max, len, .. } => bits_of(*max) * (len + 1),
            Spec::Deg3 { len } => *len,
            Spec::TwoGadget => 2,
        }
    }
    /// chunk length L of the parallel-sum range check (degree of the circuit in one joint rand)
    pub fn chunk(&self) -> usize {
        match self {
            Spec::SumVec { chunk, .. } | Spec::Histogram { chunk, .. } | Spec::Multihot { chunk, .. } | Spec::L1 { chunk, .. } => *chunk,
            _ => 0,
        }
    }
    pub fn outputs(&self) -> usize {
        match self {
            Spec::Count | Spec::SumVec { .. } => 1,
            Spec::Sum { max } => bits_of(*max),
            Spec::Deg3 { len } => *len,
            _ => 2,
        }
    }
    pub fn num_gadgets(&self) -> usize {
        if matches!(self, Spec::TwoGadget) { 2 } else { 1 }
    }
    pub fn gadget_calls(&self) -> usize {
        match self {
            Spec::Count | Spec::TwoGadget => 1,
            Spec::Sum { max } => bits_of(*max),
            Spec::Deg3 { len } => *len,
            _ => self.input_len().div_ceil(self.chunk()),
        }
    }
    pub fn gadget_degree(&self) -> usize {
        match self {
            Spec::Deg3 { .. } => 3,
            _ => 2,
        }
    }
    pub fn wire_poly_len(&self) -> usize {
        (1 + self.gadget_calls()).next_power_of_two()
    }
    /// Specification validity of an encoded input over GF(p) (x given as residues).
    pub fn is_valid(&self, x: &[u128], p: u128) -> bool {
        if x.len() != self.input_len() {
            return false;
        }
        let allbits = x.iter().all(|v| *v <= 1);
        match self {
            Spec::Count | Spec::Sum { .. } | Spec::SumVec { .. } | Spec::TwoGadget => allbits,
            Spec::Deg3 { .. } => x.iter().all(|v| *v <= 2),
            Spec::Histogram { .. } => allbits && x.iter().fold(0, |a, b| addmod(a, *b, p)) == 1 % p,
            Spec::Multihot { len, max_weight, .. } => {
                allbits && x[..*len].iter().fold(0, |a, b| addmod(a, *b, p)) == Self::dec(&x[*len..], *max_weight as u128, p)
            }
            Spec::L1 { max, len, .. } => {
                let b = bits_of(*max);
                let mut obs = 0u128;
                for c in x.chunks(b).take(*len) {
                    obs = addmod(obs, Self::dec(c, *max, p), p);
                }
                allbits && obs == Self::dec(&x[b * len..], *max, p)
            }
        }
    }
    /// Upper bound (numerator over `denom` = |F|) on the honest-proof acceptance probability of an
    /// invalid input taken from the specification's soundness analysis: circuit soundness
    /// (chunk/|F| for the random linear combination + 1/|F| for output compression) + FLP
    /// soundness d(P-1)/(|F|-P). Returned as a float fraction.
    pub fn soundness_bound(&self, field_size: u128) -> f64 {
        let f = field_size as f64;
        let circ = (self.chunk() as f64 + if self.outputs() > 1 { 1.0 } else { 0.0 }) / f;
        let pp = self.wire_poly_len() as f64;
        let flp = (self.num_gadgets() as f64) * (self.gadget_degree() as f64) * (pp - 1.0) / (f - pp);
        circ + flp
    }
    /// Encoding of an integer in `[0,max]` with the draft's offset-last-bit scheme.
    pub fn enc_int(v: u128, max: u128) -> Vec<u128> {
        let b = bits_of(max);
        let last_weight = max - ((1u128 << (b - 1)) - 1);
        let threshold = (1u128 << (b - 1)) - 1;
        let (rest, hi) = if v > threshold { (v - last_weight, 1) } else { (v, 0) };
        let mut out: Vec<u128> = (0..b - 1).map(|i| (rest >> i) & 1).collect();
        out.push(hi);
        out
    }
    /// A few valid encodings (simplest first).
    pub fn valid_examples(&self) -> Vec<Vec<u128>> {
        match self {
            Spec::Count => vec![vec![0], vec![1]],
            Spec::TwoGadget => vec![vec![0, 0], vec![1, 1], vec![0, 1]],
            Spec::Deg3 { len } => vec![vec![0; *len], vec![2; *len], (0..*len).map(|i| (i % 3) as u128).collect()],
            Spec::Sum { max } => {
                let mut v = vec![Self::enc_int(0, *max), Self::enc_int(*max, *max), Self::enc_int(max / 2, *max)];
                v.dedup();
                v
            }
            Spec::SumVec { max, len, .. } => {
                let f = |g: &dyn Fn(usize) -> u128| (0..*len).flat_map(|i| Self::enc_int(g(i), *max)).collect::<Vec<_>>();
                vec![f(&|_| 0), f(&|_| *max), f(&|i| (i as u128 * 5 + 1) % (max + 1))]
            }
            Spec::Histogram { len, .. } => {
                let mut v = vec![(0..*len).map(|i| (i == 0) as u128).collect::<Vec<_>>(), (0..*len).map(|i| (i == len - 1) as u128).collect()];
                v.dedup();
                v
            }
            Spec::Multihot { len, max_weight, .. } => {
                let f = |w: usize| {
                    let mut x: Vec<u128> = (0..*len).map(|i| (i < w) as u128).collect();
                    x.extend(Self::enc_int(w as u128, *max_weight as u128));
                    x
                };
                let mut v = vec![f(0), f((*max_weight).min(*len)), f(1.min(*len))];
                v.dedup();
                v
            }
            Spec::L1 { max, len, .. } => {
                let f = |vals: Vec<u128>| {
                    let s: u128 = vals.iter().sum();
                    let mut x: Vec<u128> = vals.iter().flat_map(|v| Self::enc_int(*v, *max)).collect();
                    x.extend(Self::enc_int(s, *max));
                    x
                };
                let mut first = vec![0; *len];
                first[0] = *max;
                let mut spread = vec![0; *len];
                let mut rest = *max;
                for x in spread.iter_mut() {
                    let t = rest.min(1);
                    *x = t;
                    rest -= t;
                }
                let mut v = vec![f(vec![0; *len]), f(first), f(spread)];
                v.dedup();
                v
            }
        }
    }
    /// Is `out` the truncation of some valid encoding (the aggregatable outputs the type admits)?
    pub fn valid_output(&self, out: &[u128], p: u128) -> bool {
        let _ = p;
        match self {
            Spec::Count => out.len() == 1 && out[0] <= 1,
            Spec::TwoGadget => out.len() == 2 && out.iter().all(|v| *v <= 1),
            Spec::Deg3 { len } => out.len() == *len && out.iter().all(|v| *v <= 2),
            Spec::Sum { max } => out.len() == 1 && out[0] <= *max,
            Spec::SumVec { max, len, .. } => out.len() == *len && out.iter().all(|v| v <= max),
            Spec::Histogram { len, .. } => out.len() == *len && out.iter().all(|v| *v <= 1) && out.iter().sum::<u128>() == 1,
            Spec::Multihot { len, max_weight, .. } => out.len() == *len && out.iter().all(|v| *v <= 1) && out.iter().sum::<u128>() <= *max_weight as u128,
            Spec::L1 { max, len, .. } => out.len() == *len && out.iter().all(|v| v <= max) && out.iter().sum::<u128>() <= *max,
        }
    }
    /// Algorithm identifier of the Prio3 instantiation.
    pub fn alg_id(&self) -> u32 {
        match self {
            Spec::Count => 1,
            Spec::Sum { .. } => 2,
            Spec::SumVec { .. } => 3,
            Spec::Histogram { .. } => 4,
            Spec::Multihot { .. } => 5,
            Spec::L1 { .. } => 7,
            Spec::Deg3 { .. } => 0xFFFF_1234,
            Spec::TwoGadget => 0xFFFF_2222,
        }
    }
    /// Truncation of a valid encoding (the aggregatable output), as residues.
    pub fn truncate(&self, x: &[u128], p: u128) -> Vec<u128> {
        match self {
            Spec::Count | Spec::Histogram { .. } | Spec::Deg3 { .. } | Spec::TwoGadget => x.to_vec(),
            Spec::Sum { max } => vec![Self::dec(x, *max, p)],
            Spec::SumVec { max, .. } => x.chunks(bits_of(*max)).map(|c| Self::dec(c, *max, p)).collect(),
            Spec::Multihot { len, .. } => x[..*len].to_vec(),
            Spec::L1 { max, len, .. } => x.chunks(bits_of(*max)).take(*len).map(|c| Self::dec(c, *max, p)).collect(),
        }
    }
}

/// Harness-defined degree-3 circuit exercising PolyEval with degree > 2 over any field.
#[derive(Clone, Debug, PartialEq, Eq)]
pub struct Deg3<F> {
    len: usize,
    ph: PhantomData<F>,
}
impl<F: KitField> Deg3<F>
where
    F::Integer: IntConv,
{
    pub fn new(len: usize) -> Self {
        Deg3 { len, ph: PhantomData }
    }
}
impl<F: KitField> Flp for Deg3<F>
where
    F::Integer: IntConv,
{
    type Field = F;
    fn gadget(&self) -> Vec<Box<dyn Gadget<F>>> {
        // x(x-1)(x-2) = x^3 - 3x^2 + 2x
        vec![Box::new(PolyEval::new(vec![F::zero(), F::fe(2), -F::fe(3), F::one()], self.len))]
    }
    fn num_gadgets(&self) -> usize {
        1
    }
    fn valid(&self, g: &mut Vec<Box<dyn Gadget<F>>>, input: &[F], joint_rand: &[F], _n: usize) -> Result<Vec<F>, FlpError> {
        self.valid_call_check(input, joint_rand)?;
        let mut out = vec![];
        for x in input {
            out.push(g[0].eval(std::slice::from_ref(x))?);
        }
        Ok(out)
    }
    fn input_len(&self) -> usize {
        self.len
    }
    fn proof_len(&self) -> usize {
        1 + 3 * ((1 + self.len).next_power_of_two() - 1) + 1
    }
    fn verifier_len(&self) -> usize {
        3
    }
    fn joint_rand_len(&self) -> usize {
        0
    }
    fn eval_output_len(&self) -> usize {
        self.len
    }
    fn prove_rand_len(&self) -> usize {
        1
    }
}
impl<F: KitField> Type for Deg3<F>
where
    F::Integer: IntConv,
{
    type Measurement = Vec<u8>;
    type AggregateResult = Vec<u128>;
    fn encode_measurement(&self, m: &Vec<u8>) -> Result<Vec<F>, FlpError> {
        Ok(m.iter().map(|x| F::fe(*x as u128)).collect())
    }
    fn truncate(&self, input: Vec<F>) -> Result<Vec<F>, FlpError> {
        self.truncate_call_check(&input)?;
        Ok(input)
    }
    fn decode_result(&self, data: &[F], _n: usize) -> Result<Vec<u128>, FlpError> {
        Ok(data.iter().map(|x| x.val()).collect())
    }
    fn output_len(&self) -> usize {
        self.len
    }
}

/// Harness-defined two-gadget circuit (see `Spec::TwoGadget`).
#[derive(Clone, Debug, PartialEq, Eq)]
pub struct TwoGadget<F> {
    ph: PhantomData<F>,
}
impl<F: KitField> TwoGadget<F>
where
    F::Integer: IntConv,
{
    pub fn new() -> Self {
        TwoGadget { ph: PhantomData }
    }
}
impl<F: KitField> Default for TwoGadget<F>
where
    F::Integer: IntConv,
{
    fn default() -> Self {
        Self::new()
    }
}
impl<F: KitField> Flp for TwoGadget<F>
where
    F::Integer: IntConv,
{
    type Field = F;
    fn gadget(&self) -> Vec<Box<dyn Gadget<F>>> {
        vec![Box::new(prio::flp::gadgets::Mul::new(1)), Box::new(PolyEval::new(vec![F::zero(), -F::one(), F::one()], 1))]
    }
    fn num_gadgets(&self) -> usize {
        2
    }
    fn valid(&self, g: &mut Vec<Box<dyn Gadget<F>>>, input: &[F], joint_rand: &[F], _n: usize) -> Result<Vec<F>, FlpError> {
        self.valid_call_check(input, joint_rand)?;
        let a = g[0].eval(&[input[0], input[0]])? - input[0];
        let b = g[1].eval(&[input[1]])?;
        Ok(vec![a, b])
    }
    fn input_len(&self) -> usize {
        2
    }
    fn proof_len(&self) -> usize {
        // Mul: arity 2 + gadget poly 2*(2-1)+1 = 3; PolyEval(deg 2): arity 1 + 3
        (2 + 3) + (1 + 3)
    }
    fn verifier_len(&self) -> usize {
        1 + (2 + 1) + (1 + 1)
    }
    fn joint_rand_len(&self) -> usize {
        0
    }
    fn eval_output_len(&self) -> usize {
        2
    }
    fn prove_rand_len(&self) -> usize {
        3
    }
}
impl<F: KitField> Type for TwoGadget<F>
where
    F::Integer: IntConv,
{
    type Measurement = Vec<u8>;
    type AggregateResult = Vec<u128>;
    fn encode_measurement(&self, m: &Vec<u8>) -> Result<Vec<F>, FlpError> {
        Ok(m.iter().map(|x| F::fe(*x as u128)).collect())
    }
    fn truncate(&self, input: Vec<F>) -> Result<Vec<F>, FlpError> {
        self.truncate_call_check(&input)?;
        Ok(input)
    }
    fn decode_result(&self, data: &[F], _n: usize) -> Result<Vec<u128>, FlpError> {
        Ok(data.iter().map(|x| x.val()).collect())
    }
    fn output_len(&self) -> usize {
        2
    }
}

/// Visitor over the concrete Rust type of a `Spec` instantiated at field `F`.
pub trait Visit<F: KitField>
where
    F::Integer: IntConv,
{
    type Out;
    fn visit<T: Type<Field = F> + Send + Sync + 'static>(self, spec: &Spec, t: T) -> Self::Out;
}

pub fn build<F: KitField, V: Visit<F>>(spec: &Spec, v: V) -> Result<V::Out, FlpError>
where
    F::Integer: IntConv,
{
    let int = |x: u128| <F::Integer as IntConv>::from_u128(x);
    Ok(match spec {
        Spec::Count => v.visit(spec, Count::<F>::new()),
        Spec::Sum { max } => v.visit(spec, Sum::<F>::new(int(*max))?),
        Spec::SumVec { max, len, chunk } => v.visit(spec, SumVec::<F, ParallelSum<F, Mul>>::new(int(*max), *len, *chunk)?),
        Spec::Histogram { len, chunk } => v.visit(spec, Histogram::<F, ParallelSum<F, Mul>>::new(*len, *chunk)?),
        Spec::Multihot { len, max_weight, chunk } => v.visit(spec, MultihotCountVec::<F, ParallelSum<F, Mul>>::new(*len, *max_weight, *chunk)?),
        Spec::L1 { max, len, chunk } => v.visit(spec, L1BoundSum::<F, ParallelSum<F, Mul>>::new(int(*max), *len, *chunk)?),
        Spec::Deg3 { len } => v.visit(spec, Deg3::<F>::new(*len)),
        Spec::TwoGadget => v.visit(spec, TwoGadget::<F>::new()),
    })
}
