//! Integer <-> u128 conversions for the `Integer` types of all fields.
pub trait IntConv: Copy + Send + Sync + 'static {
    fn to_u128(self) -> u128;
    fn from_u128(x: u128) -> Self;
    fn max_u128() -> u128;
}
macro_rules! impl_ic { ($($t:ty),*) => {$(impl IntConv for $t {
    fn to_u128(self) -> u128 { self as u128 }
    fn from_u128(x: u128) -> Self { x as $t }
    fn max_u128() -> u128 { <$t>::MAX as u128 }
})*}; }
impl_ic!(u8, u16, u32, u64, u128);

use prio::field::{FieldElementWithInteger, NttFriendlyFieldElement};

/// Field with u128-convertible integers (all make_field! fields).
pub trait KitField: NttFriendlyFieldElement + Send + Sync + std::hash::Hash
where
    Self::Integer: IntConv,
{
    fn fe(x: u128) -> Self {
        Self::from(<Self as FieldElementWithInteger>::Integer::from_u128(x))
    }
    fn val(self) -> u128 {
        <Self as FieldElementWithInteger>::Integer::from(self).to_u128()
    }
    fn p() -> u128 {
        Self::modulus().to_u128()
    }
}
impl<F> KitField for F
where
    F: NttFriendlyFieldElement + Send + Sync + std::hash::Hash,
    F::Integer: IntConv,
{
}

/// i-th vector of F^n in lexicographic order (least significant coordinate first).
pub fn nth_vector(mut i: u64, n: usize, p: u64) -> Vec<u128> {
    let mut v = Vec::with_capacity(n);
    for _ in 0..n {
        v.push((i % p) as u128);
        i /= p;
    }
    v
}

pub fn pow_u64(p: u64, n: usize) -> Option<u64> {
    let mut r: u64 = 1;
    for _ in 0..n {
        r = r.checked_mul(p)?;
    }
    Some(r)
}

pub fn mulmod(a: u128, b: u128, p: u128) -> u128 {
    if p < (1 << 64) {
        (a % p) * (b % p) % p
    } else {
        use num_bigint::BigUint;
        use num_traits::ToPrimitive;
        (BigUint::from(a) * BigUint::from(b) % BigUint::from(p)).to_u128().unwrap()
    }
}
pub fn addmod(a: u128, b: u128, p: u128) -> u128 {
    let (a, b) = (a % p, b % p);
    let (s, o) = a.overflowing_add(b);
    if o || s >= p {
        s.wrapping_sub(p)
    } else {
        s
    }
}
pub fn modpow(mut b: u128, mut e: u128, p: u128) -> u128 {
    let mut r = 1 % p;
    b %= p;
    while e > 0 {
        if e & 1 == 1 {
            r = mulmod(r, b, p);
        }
        b = mulmod(b, b, p);
        e >>= 1;
    }
    r
}
