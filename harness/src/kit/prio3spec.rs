//! Harness-side transcription of the draft-18 Prio3 derivations, built only from the public XOF
//! and field API, plus `Raw<T>`: a Type with the same circuit as `T` whose measurement is the raw
//! encoded input vector (so an honest `Prio3<Raw<T>>` client can shard *invalid* encodings, with an
//! honestly computed proof, for honest `Prio3<T>` aggregators).
use super::ints::{IntConv, KitField};
use prio::flp::{Flp, FlpError, Gadget, Type};
use prio::vdaf::xof::{IntoFieldVec, Xof, XofTurboShake128};

pub const USAGE_MEAS_SHARE: u16 = 1;
pub const USAGE_PROOF_SHARE: u16 = 2;
pub const USAGE_JOINT_RANDOMNESS: u16 = 3;
pub const USAGE_PROVE_RANDOMNESS: u16 = 4;
pub const USAGE_QUERY_RANDOMNESS: u16 = 5;
pub const USAGE_JOINT_RAND_SEED: u16 = 6;
pub const USAGE_JOINT_RAND_PART: u16 = 7;

pub fn dst(alg: u32, usage: u16) -> [u8; 8] {
    let mut d = [0u8; 8];
    d[0] = 18; // VDAF draft version
    d[1] = 0; // algorithm class: VDAF
    d[2..6].copy_from_slice(&alg.to_be_bytes());
    d[6..8].copy_from_slice(&usage.to_be_bytes());
    d
}

#[derive(Clone, Debug)]
pub struct Params {
    pub alg: u32,
    pub num_aggregators: u8,
    pub num_proofs: u8,
}

pub fn helper_meas_share<F: KitField>(p: &Params, ctx: &[u8], seed: &[u8; 32], agg_id: u8, len: usize) -> Vec<F>
where
    F::Integer: IntConv,
{
    XofTurboShake128::seed_stream(seed, &[&dst(p.alg, USAGE_MEAS_SHARE), ctx], &[&[agg_id]]).into_field_vec(len)
}

pub fn helper_proofs_share<F: KitField>(p: &Params, ctx: &[u8], seed: &[u8; 32], agg_id: u8, len: usize) -> Vec<F>
where
    F::Integer: IntConv,
{
    XofTurboShake128::seed_stream(seed, &[&dst(p.alg, USAGE_PROOF_SHARE), ctx], &[&[p.num_proofs, agg_id]]).into_field_vec(len)
}

pub fn joint_rand_part<F: KitField>(p: &Params, ctx: &[u8], blind: &[u8; 32], agg_id: u8, nonce: &[u8; 16], meas_share: &[F]) -> [u8; 32]
where
    F::Integer: IntConv,
{
    let mut xof = XofTurboShake128::init(blind, &[&dst(p.alg, USAGE_JOINT_RAND_PART), ctx]);
    xof.update(&[agg_id]);
    xof.update(nonce);
    for x in meas_share {
        xof.update(&x.get_encoded().unwrap());
    }
    *xof.into_seed().as_ref()
}

pub fn joint_rand_seed(p: &Params, ctx: &[u8], parts: &[[u8; 32]]) -> [u8; 32] {
    let mut xof = XofTurboShake128::init(&[0u8; 32], &[&dst(p.alg, USAGE_JOINT_RAND_SEED), ctx]);
    for part in parts {
        xof.update(part);
    }
    *xof.into_seed().as_ref()
}

pub fn joint_rands<F: KitField>(p: &Params, ctx: &[u8], seed: &[u8; 32], len: usize) -> Vec<F>
where
    F::Integer: IntConv,
{
    XofTurboShake128::seed_stream(seed, &[&dst(p.alg, USAGE_JOINT_RANDOMNESS), ctx], &[&[p.num_proofs]]).into_field_vec(len)
}

pub fn prove_rands<F: KitField>(p: &Params, ctx: &[u8], seed: &[u8; 32], len: usize) -> Vec<F>
where
    F::Integer: IntConv,
{
    XofTurboShake128::seed_stream(seed, &[&dst(p.alg, USAGE_PROVE_RANDOMNESS), ctx], &[&[p.num_proofs]]).into_field_vec(len)
}

pub fn query_rands<F: KitField>(p: &Params, ctx: &[u8], verify_key: &[u8; 32], nonce: &[u8; 16], len: usize) -> Vec<F>
where
    F::Integer: IntConv,
{
    let mut xof = XofTurboShake128::init(verify_key, &[&dst(p.alg, USAGE_QUERY_RANDOMNESS), ctx]);
    xof.update(&[p.num_proofs]);
    xof.update(nonce);
    xof.into_seed_stream().into_field_vec(len)
}

/// Everything the specification derives for one report, given the sharding randomness layout of
/// draft-18 (per helper: share seed [, blind]; then leader blind (if joint rand); then prove seed).
pub struct Derived<F> {
    pub helper_seeds: Vec<[u8; 32]>,
    pub blinds: Vec<[u8; 32]>, // index 0 = leader, only with joint randomness
    pub prove_seed: [u8; 32],
    pub meas_shares: Vec<Vec<F>>, // index 0 = leader
    pub joint_rand_parts: Vec<[u8; 32]>,
    pub joint_rand_seed: Option<[u8; 32]>,
    pub joint_rands: Vec<F>,
    pub prove_rands: Vec<F>,
}

pub fn derive<T: Type>(typ: &T, p: &Params, ctx: &[u8], nonce: &[u8; 16], random: &[u8], encoded: &[T::Field]) -> Derived<T::Field>
where
    T::Field: KitField,
    <T::Field as prio::field::FieldElementWithInteger>::Integer: IntConv,
{
    let n = p.num_aggregators as usize;
    let jr = typ.joint_rand_len() > 0;
    let mut chunks = random.chunks_exact(32).map(|c| <[u8; 32]>::try_from(c).unwrap());
    let mut helper_seeds = vec![];
    let mut blinds = vec![[0u8; 32]; if jr { n } else { 0 }];
    for j in 1..n {
        helper_seeds.push(chunks.next().unwrap());
        if jr {
            blinds[j] = chunks.next().unwrap();
        }
    }
    if jr {
        blinds[0] = chunks.next().unwrap();
    }
    let prove_seed = chunks.next().unwrap();
    let mut leader = encoded.to_vec();
    let mut meas_shares = vec![vec![]];
    for j in 1..n {
        let sh: Vec<T::Field> = helper_meas_share(p, ctx, &helper_seeds[j - 1], j as u8, typ.input_len());
        for (a, b) in leader.iter_mut().zip(&sh) {
            *a -= *b;
        }
        meas_shares.push(sh);
    }
    meas_shares[0] = leader;
    let (parts, seed, jrs) = if jr {
        let parts: Vec<[u8; 32]> = (0..n).map(|j| joint_rand_part(p, ctx, &blinds[j], j as u8, nonce, &meas_shares[j])).collect();
        let seed = joint_rand_seed(p, ctx, &parts);
        let jrs = joint_rands(p, ctx, &seed, typ.joint_rand_len() * p.num_proofs as usize);
        (parts, Some(seed), jrs)
    } else {
        (vec![], None, vec![])
    };
    let prs = prove_rands(p, ctx, &prove_seed, typ.prove_rand_len() * p.num_proofs as usize);
    Derived { helper_seeds, blinds, prove_seed, meas_shares, joint_rand_parts: parts, joint_rand_seed: seed, joint_rands: jrs, prove_rands: prs }
}

/// Decision the specification prescribes for an (encoded input, honest proof) under the derived
/// randomness: every proof must be accepted by the FLP; `Err` = the specified refusal of query
/// randomness. Uses the library's FLP on the *whole* input (the FLP itself is checked by C05).
pub fn predicted_decision<T: Type>(typ: &T, p: &Params, d: &Derived<T::Field>, qr: &[T::Field], encoded: &[T::Field]) -> Result<bool, FlpError>
where
    T::Field: KitField,
    <T::Field as prio::field::FieldElementWithInteger>::Integer: IntConv,
{
    let mut all = true;
    for k in 0..p.num_proofs as usize {
        let jr = &d.joint_rands[k * typ.joint_rand_len()..(k + 1) * typ.joint_rand_len()];
        let pr = &d.prove_rands[k * typ.prove_rand_len()..(k + 1) * typ.prove_rand_len()];
        let q = &qr[k * typ.query_rand_len()..(k + 1) * typ.query_rand_len()];
        let proof = typ.prove(encoded, pr, jr)?;
        let v = typ.query(encoded, &proof, q, jr, 1)?;
        all &= typ.decide(&v)?;
    }
    Ok(all)
}

/// Same circuit as `T`, measurement = raw encoded input.
#[derive(Clone, Debug, PartialEq, Eq)]
pub struct Raw<T>(pub T);

impl<T: Type> Flp for Raw<T> {
    type Field = T::Field;
    fn gadget(&self) -> Vec<Box<dyn Gadget<T::Field>>> {
        self.0.gadget()
    }
    fn num_gadgets(&self) -> usize {
        self.0.num_gadgets()
    }
    fn valid(&self, g: &mut Vec<Box<dyn Gadget<T::Field>>>, input: &[T::Field], jr: &[T::Field], n: usize) -> Result<Vec<T::Field>, FlpError> {
        self.0.valid(g, input, jr, n)
    }
    fn input_len(&self) -> usize {
        self.0.input_len()
    }
    fn proof_len(&self) -> usize {
        self.0.proof_len()
    }
    fn verifier_len(&self) -> usize {
        self.0.verifier_len()
    }
    fn joint_rand_len(&self) -> usize {
        self.0.joint_rand_len()
    }
    fn eval_output_len(&self) -> usize {
        self.0.eval_output_len()
    }
    fn prove_rand_len(&self) -> usize {
        self.0.prove_rand_len()
    }
}

impl<T: Type> Type for Raw<T> {
    type Measurement = Vec<T::Field>;
    type AggregateResult = Vec<T::Field>;
    fn encode_measurement(&self, m: &Vec<T::Field>) -> Result<Vec<T::Field>, FlpError> {
        if m.len() != self.0.input_len() {
            return Err(FlpError::Encode("raw length".into()));
        }
        Ok(m.clone())
    }
    fn truncate(&self, input: Vec<T::Field>) -> Result<Vec<T::Field>, FlpError> {
        self.0.truncate(input)
    }
    fn decode_result(&self, data: &[T::Field], _n: usize) -> Result<Vec<T::Field>, FlpError> {
        Ok(data.to_vec())
    }
    fn output_len(&self) -> usize {
        self.0.output_len()
    }
}
