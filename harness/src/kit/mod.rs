//! Helpers that know about `prio` (shared by several property binaries).
pub mod flpkit;
pub mod ints;
pub mod vdafkit;
pub mod flpexh;
pub mod prio3spec;
pub mod p3cases;
