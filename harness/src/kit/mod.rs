//! Helpers that know about `prio` (shared by several property binaries).
pub mod flpkit;
pub mod ints;
pub mod vdafkit;
