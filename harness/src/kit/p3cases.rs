//! Catalogue of Prio3 instances (type, parameters, measurement domain, plain-integer semantics)
//! shared by C01, C13, C14, C17, C18, C07.
use super::ints::{IntConv, KitField};
use prio::flp::gadgets::{Mul, ParallelSum};
use prio::flp::types::{Average, Count, Histogram, L1BoundSum, MultihotCountVec, Sum, SumVec};
use prio::flp::Type;

pub struct Case<T: Type> {
    pub name: String,
    pub typ: T,
    /// builds the same instance afresh (never cloned): lets a check compare an original with its clones
    pub make: Box<dyn Fn() -> T + Send + Sync>,
    pub alg: u32,
    pub meas: Vec<T::Measurement>,
    /// per-measurement contribution to the aggregate, as integers
    pub contrib: Box<dyn Fn(&T::Measurement) -> Vec<u128> + Send + Sync>,
    /// library result -> integers (or f64 bits for Average)
    pub result: Box<dyn Fn(&T::AggregateResult) -> Vec<u128> + Send + Sync>,
    pub average: bool,
    /// wire polynomial length P of the (single) gadget, for predicting refused query randomness
    pub wire_poly_len: usize,
}


// ---------------------------------------------------------------------------------------------
// case builders, generic in the field
pub fn bits_of(max: u128) -> usize {
    (128 - max.leading_zeros()) as usize
}
pub fn int<F: KitField>(x: u128) -> F::Integer
where
    F::Integer: IntConv,
{
    <F::Integer as IntConv>::from_u128(x)
}
pub fn edge_ints(max: u128) -> Vec<u128> {
    let b = bits_of(max);
    let mut v = vec![0, 1, max, max - 1, max / 2, (1u128 << (b - 1)) - 1, 1u128 << (b - 1), max - (1u128 << (b - 1)) + 1];
    v.retain(|x| *x <= max);
    v.sort();
    v.dedup();
    v
}

pub fn count_case<F: KitField>() -> Case<Count<F>>
where
    F::Integer: IntConv,
{
    Case { name: format!("Count@{}", F::p()), typ: Count::new(), make: Box::new(move || Count::new()), alg: 1, meas: vec![false, true], contrib: Box::new(|m| vec![*m as u128]), result: Box::new(|r| vec![r.to_u128()]), average: false, wire_poly_len: 2 }
}
pub fn sum_case<F: KitField>(max: u128) -> Case<Sum<F>>
where
    F::Integer: IntConv,
{
    let meas: Vec<u128> = if max <= 40 { (0..=max).collect() } else { edge_ints(max) };
    Case { name: format!("Sum(max={max})@{}", F::p()), typ: Sum::new(int::<F>(max)).unwrap(), make: Box::new(move || Sum::new(int::<F>(max)).unwrap()), alg: 2, meas: meas.into_iter().map(int::<F>).collect(), contrib: Box::new(|m| vec![m.to_u128()]), result: Box::new(|r| vec![r.to_u128()]), average: false, wire_poly_len: (1 + bits_of(max)).next_power_of_two() }
}
pub fn average_case<F: KitField>(max: u128) -> Case<Average<F>>
where
    F::Integer: IntConv,
{
    let meas: Vec<u128> = if max <= 40 { (0..=max).collect() } else { edge_ints(max) };
    Case { name: format!("Average(max={max})@{}", F::p()), typ: Average::new(int::<F>(max)).unwrap(), make: Box::new(move || Average::new(int::<F>(max)).unwrap()), alg: 0xFFFF0000, meas: meas.into_iter().map(int::<F>).collect(), contrib: Box::new(|m| vec![m.to_u128()]), result: Box::new(|r| vec![r.to_bits() as u128]), average: true, wire_poly_len: (1 + bits_of(max)).next_power_of_two() }
}
pub fn vec_meas(max: u128, len: usize, l1: Option<u128>) -> Vec<Vec<u128>> {
    // full domain when small, else edges
    let dom = (max + 1).checked_pow(len as u32).filter(|d| *d <= 81);
    let mut out: Vec<Vec<u128>> = vec![];
    if let Some(d) = dom {
        for i in 0..d {
            let mut v = vec![];
            let mut k = i;
            for _ in 0..len {
                v.push(k % (max + 1));
                k /= max + 1;
            }
            out.push(v);
        }
    } else {
        out.push(vec![0; len]);
        out.push(vec![max; len]);
        for i in 0..len.min(6) {
            let mut v = vec![0; len];
            v[i * (len - 1) / len.min(6).max(1)] = max;
            out.push(v);
            let mut w = vec![max; len];
            w[i] = max / 2;
            out.push(w);
        }
        out.push((0..len).map(|i| (i as u128 * 7 + 1) % (max + 1)).collect());
        let mut v = vec![0; len];
        v[len - 1] = 1;
        out.push(v);
    }
    if let Some(bound) = l1 {
        out.retain(|v| v.iter().sum::<u128>() <= bound);
        // plus vectors exactly at the bound
        let mut v = vec![0; len];
        v[len - 1] = bound.min(max);
        out.push(v);
        let mut v = vec![0; len];
        let mut rest = bound;
        for x in v.iter_mut() {
            let t = rest.min(max).min(rest / 2 + 1);
            *x = t;
            rest -= t;
        }
        out.push(v);
    }
    out.sort();
    out.dedup();
    out
}
pub fn sumvec_case<F: KitField>(max: u128, len: usize, chunk: usize) -> Case<SumVec<F, ParallelSum<F, Mul>>>
where
    F::Integer: IntConv,
{
    let calls = (bits_of(max) * len).div_ceil(chunk);
    Case { name: format!("SumVec(max={max},len={len},chunk={chunk})@{}", F::p()), typ: SumVec::new(int::<F>(max), len, chunk).unwrap(), make: Box::new(move || SumVec::new(int::<F>(max), len, chunk).unwrap()), alg: 3, meas: vec_meas(max, len, None).into_iter().map(|v| v.into_iter().map(int::<F>).collect()).collect(), contrib: Box::new(|m: &Vec<F::Integer>| m.iter().map(|x| x.to_u128()).collect()), result: Box::new(|r: &Vec<F::Integer>| r.iter().map(|x| x.to_u128()).collect()), average: false, wire_poly_len: (1 + calls).next_power_of_two() }
}
pub fn histogram_case<F: KitField>(len: usize, chunk: usize) -> Case<Histogram<F, ParallelSum<F, Mul>>>
where
    F::Integer: IntConv,
{
    let meas: Vec<usize> = if len <= 12 { (0..len).collect() } else { vec![0, 1, len / 2, chunk.min(len - 1), (chunk + 1).min(len - 1), len - 2, len - 1] };
    Case { name: format!("Histogram(len={len},chunk={chunk})@{}", F::p()), typ: Histogram::new(len, chunk).unwrap(), make: Box::new(move || Histogram::new(len, chunk).unwrap()), alg: 4, meas, contrib: Box::new(move |m| (0..len).map(|i| (i == *m) as u128).collect()), result: Box::new(|r: &Vec<F::Integer>| r.iter().map(|x| x.to_u128()).collect()), average: false, wire_poly_len: (1 + len.div_ceil(chunk)).next_power_of_two() }
}
pub fn multihot_case<F: KitField>(len: usize, maxw: usize, chunk: usize) -> Case<MultihotCountVec<F, ParallelSum<F, Mul>>>
where
    F::Integer: IntConv,
{
    let mut meas: Vec<Vec<bool>> = vec![];
    if len <= 5 {
        for i in 0..(1u32 << len) {
            let v: Vec<bool> = (0..len).map(|k| (i >> k) & 1 == 1).collect();
            if v.iter().filter(|b| **b).count() <= maxw {
                meas.push(v);
            }
        }
    } else {
        meas.push(vec![false; len]);
        for w in [1, maxw.min(len), maxw.min(len).saturating_sub(1)] {
            meas.push((0..len).map(|i| i < w).collect());
            meas.push((0..len).map(|i| i >= len - w).collect());
        }
        meas.sort();
        meas.dedup();
    }
    let calls = (len + bits_of(maxw as u128)).div_ceil(chunk);
    Case { name: format!("Multihot(len={len},maxw={maxw},chunk={chunk})@{}", F::p()), typ: MultihotCountVec::new(len, maxw, chunk).unwrap(), make: Box::new(move || MultihotCountVec::new(len, maxw, chunk).unwrap()), alg: 5, meas, contrib: Box::new(|m: &Vec<bool>| m.iter().map(|b| *b as u128).collect()), result: Box::new(|r: &Vec<F::Integer>| r.iter().map(|x| x.to_u128()).collect()), average: false, wire_poly_len: (1 + calls).next_power_of_two() }
}
pub fn l1_case<F: KitField>(max: u128, len: usize, chunk: usize) -> Case<L1BoundSum<F, ParallelSum<F, Mul>>>
where
    F::Integer: IntConv,
{
    let calls = (bits_of(max) * (len + 1)).div_ceil(chunk);
    Case { name: format!("L1BoundSum(max={max},len={len},chunk={chunk})@{}", F::p()), typ: L1BoundSum::new(int::<F>(max), len, chunk).unwrap(), make: Box::new(move || L1BoundSum::new(int::<F>(max), len, chunk).unwrap()), alg: 7, meas: vec_meas(max, len, Some(max)).into_iter().map(|v| v.into_iter().map(int::<F>).collect()).collect(), contrib: Box::new(|m: &Vec<F::Integer>| m.iter().map(|x| x.to_u128()).collect()), result: Box::new(|r: &Vec<F::Integer>| r.iter().map(|x| x.to_u128()).collect()), average: false, wire_poly_len: (1 + calls).next_power_of_two() }
}

