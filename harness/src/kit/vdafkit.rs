//! Generic VDAF drivers: run verification for one report among all aggregators, optionally passing
//! every message through its wire encoding (encode -> decode with the proper parameter -> use the
//! decoded value), and recording every encoded message for tamper enumeration.
use prio::codec::{Encode, ParameterizedDecode};
use prio::vdaf::{Aggregator, VerifyTransition};

#[derive(Debug, Clone, PartialEq, Eq)]
pub enum Stage {
    DecodePublicShare,
    DecodeInputShare(usize),
    VerifyInit(usize),
    CodecVerifyState(usize, usize),
    CodecVerifierShare(usize, usize),
    SharesToMessage(usize),
    CodecVerifierMessage(usize, usize),
    VerifyNext(usize, usize),
    CodecOutputShare(usize),
    Protocol(String),
    Panic(String),
}

#[derive(Debug, Clone)]
pub struct Failure {
    pub stage: Stage,
    pub msg: String,
}

pub fn fail<T>(stage: Stage, msg: impl ToString) -> Result<T, Failure> {
    Err(Failure { stage, msg: msg.to_string() })
}

/// Wire codec of a value with a decoding parameter: returns the re-decoded value; checks
/// encoded_len and canonical re-encoding on the way.
pub fn through_wire<T, P>(v: &T, param: &P, stage: Stage) -> Result<T, Failure>
where
    T: Encode + ParameterizedDecode<P>,
{
    let bytes = match v.get_encoded() {
        Ok(b) => b,
        Err(e) => return fail(stage, format!("encode: {e}")),
    };
    if let Some(l) = v.encoded_len() {
        if l != bytes.len() {
            return fail(stage, format!("encoded_len()={} but {} bytes produced", l, bytes.len()));
        }
    }
    let d = match T::get_decoded_with_param(param, &bytes) {
        Ok(d) => d,
        Err(e) => return fail(stage, format!("decode of own encoding failed: {e}")),
    };
    match d.get_encoded() {
        Ok(b2) if b2 == bytes => Ok(d),
        Ok(_) => fail(stage, "decode(encode(v)) re-encodes differently"),
        Err(e) => fail(stage, format!("re-encode: {e}")),
    }
}

/// Messages of one verification, as encoded bytes (for tamper enumeration / comparison).
#[derive(Default, Clone, Debug)]
pub struct Transcript {
    pub public_share: Vec<u8>,
    pub input_shares: Vec<Vec<u8>>,
    /// [round][aggregator]
    pub verifier_shares: Vec<Vec<Vec<u8>>>,
    /// [round]
    pub verifier_messages: Vec<Vec<u8>>,
    pub verify_states: Vec<Vec<Vec<u8>>>,
    pub output_shares: Vec<Vec<u8>>,
}

/// Hook to alter messages in flight: (kind, round, aggregator, bytes) -> Option<replacement>.
pub type Tamper<'a> = &'a dyn Fn(&str, usize, usize, &[u8]) -> Option<Vec<u8>>;

/// Hook on the *list* of encoded verifier shares of a round (drop / duplicate / reorder).
pub type SharesHook<'a> = &'a dyn Fn(usize, Vec<Vec<u8>>) -> Vec<Vec<u8>>;

pub struct VerifyOpts<'a> {
    /// pass every message through its wire encoding
    pub wire: bool,
    pub tamper: Option<Tamper<'a>>,
    pub shares_hook: Option<SharesHook<'a>>,
}

impl<'a> VerifyOpts<'a> {
    pub fn wire() -> Self {
        VerifyOpts { wire: true, tamper: None, shares_hook: None }
    }
    pub fn direct() -> Self {
        VerifyOpts { wire: false, tamper: None, shares_hook: None }
    }
    pub fn tamper(t: Tamper<'a>) -> Self {
        VerifyOpts { wire: true, tamper: Some(t), shares_hook: None }
    }
}

/// What one aggregator believes about the task (lets a caller model mismatches between parties).
pub struct AggEnv<'a, V, const S: usize> {
    pub vdaf: &'a V,
    pub verify_key: [u8; S],
    pub ctx: Vec<u8>,
    pub nonce: [u8; 16],
    /// identifier this aggregator runs under
    pub agg_id: usize,
    /// index of the input share handed to it
    pub share_index: usize,
    /// context string used after verify_init (combining shares, verify_next); None = same as `ctx`
    pub ctx_late: Option<Vec<u8>>,
}

impl<'a, V, const S: usize> AggEnv<'a, V, S> {
    fn late(&self) -> &[u8] {
        self.ctx_late.as_deref().unwrap_or(&self.ctx)
    }
}

/// Run verification of one report among all aggregators (any number of rounds).
/// Returns the output shares (in aggregator order) and the transcript.
#[allow(clippy::too_many_arguments)]
pub fn verify_report<V, const S: usize>(
    vdaf: &V,
    verify_key: &[u8; S],
    ctx: &[u8],
    agg_param: &V::AggregationParam,
    nonce: &[u8; 16],
    public_share: &V::PublicShare,
    input_shares: &[V::InputShare],
    opts: &VerifyOpts,
) -> Result<(Vec<V::OutputShare>, Transcript), Failure>
where
    V: Aggregator<S, 16>,
    V::VerifyState: Encode + for<'a> ParameterizedDecode<(&'a V, usize)>,
{
    let envs: Vec<AggEnv<V, S>> = (0..input_shares.len())
        .map(|i| AggEnv { vdaf, verify_key: *verify_key, ctx: ctx.to_vec(), nonce: *nonce, agg_id: i, share_index: i, ctx_late: None })
        .collect();
    verify_report_ex(&envs, agg_param, public_share, input_shares, opts)
}

/// As [`verify_report`], with per-aggregator beliefs. Every aggregator combines the broadcast
/// verifier shares itself (with its own ctx) and then runs `verify_next` on its own state.
pub fn verify_report_ex<V, const S: usize>(
    envs: &[AggEnv<V, S>],
    agg_param: &V::AggregationParam,
    public_share: &V::PublicShare,
    input_shares: &[V::InputShare],
    opts: &VerifyOpts,
) -> Result<(Vec<V::OutputShare>, Transcript), Failure>
where
    V: Aggregator<S, 16>,
    V::VerifyState: Encode + for<'a> ParameterizedDecode<(&'a V, usize)>,
{
    let mut tr = Transcript::default();
    let n = envs.len();
    let tam = |kind: &str, round: usize, agg: usize, bytes: Vec<u8>| -> Vec<u8> {
        if let Some(t) = &opts.tamper {
            if let Some(r) = t(kind, round, agg, &bytes) {
                return r;
            }
        }
        bytes
    };
    // public share
    let ps_bytes = public_share.get_encoded().map_err(|e| Failure { stage: Stage::DecodePublicShare, msg: e.to_string() })?;
    if let Some(l) = public_share.encoded_len() {
        if l != ps_bytes.len() {
            return fail(Stage::DecodePublicShare, format!("encoded_len()={} but {} bytes", l, ps_bytes.len()));
        }
    }
    let ps_bytes = tam("public_share", 0, 0, ps_bytes);
    tr.public_share = ps_bytes.clone();
    // input shares + init
    let mut states: Vec<V::VerifyState> = vec![];
    let mut shares: Vec<V::VerifierShare> = vec![];
    for (i, env) in envs.iter().enumerate() {
        let ps = if opts.wire || opts.tamper.is_some() {
            match V::PublicShare::get_decoded_with_param(env.vdaf, &ps_bytes) {
                Ok(p) => p,
                Err(e) => return fail(Stage::DecodePublicShare, e),
            }
        } else {
            public_share.clone()
        };
        let is = &input_shares[env.share_index];
        let b = is.get_encoded().map_err(|e| Failure { stage: Stage::DecodeInputShare(i), msg: e.to_string() })?;
        if let Some(l) = is.encoded_len() {
            if l != b.len() {
                return fail(Stage::DecodeInputShare(i), format!("encoded_len()={} but {} bytes produced", l, b.len()));
            }
        }
        let b = tam("input_share", 0, i, b);
        tr.input_shares.push(b.clone());
        let is2 = if opts.wire || opts.tamper.is_some() {
            match V::InputShare::get_decoded_with_param(&(env.vdaf, env.agg_id), &b) {
                Ok(x) => x,
                Err(e) => return fail(Stage::DecodeInputShare(i), e),
            }
        } else {
            is.clone()
        };
        match crate::engine::catch(|| env.vdaf.verify_init(&env.verify_key, &env.ctx, env.agg_id, agg_param, &env.nonce, &ps, &is2)) {
            Ok(Ok((st, sh))) => {
                states.push(st);
                shares.push(sh);
            }
            Ok(Err(e)) => return fail(Stage::VerifyInit(i), e),
            Err(m) => return fail(Stage::Panic(format!("verify_init[{i}]")), m),
        }
    }
    let mut round = 0usize;
    loop {
        // states and shares through the wire
        let mut st2 = vec![];
        let mut sh2 = vec![];
        tr.verify_states.push(vec![]);
        tr.verifier_shares.push(vec![]);
        for i in 0..n {
            let st = if opts.wire {
                let s = through_wire(&states[i], &(envs[i].vdaf, envs[i].agg_id), Stage::CodecVerifyState(round, i))?;
                if s != states[i] {
                    return fail(Stage::CodecVerifyState(round, i), "decoded verify state != original");
                }
                s
            } else {
                states[i].clone()
            };
            tr.verify_states[round].push(st.get_encoded().unwrap_or_default());
            let b = shares[i].get_encoded().map_err(|e| Failure { stage: Stage::CodecVerifierShare(round, i), msg: e.to_string() })?;
            if let Some(l) = shares[i].encoded_len() {
                if l != b.len() {
                    return fail(Stage::CodecVerifierShare(round, i), format!("encoded_len()={} but {} bytes produced", l, b.len()));
                }
            }
            let b = tam("verifier_share", round, i, b);
            tr.verifier_shares[round].push(b.clone());
            let sh = if opts.wire || opts.tamper.is_some() {
                // every aggregator decodes the share with its own state; use the receiving leader's (0)
                match V::VerifierShare::get_decoded_with_param(&states[0], &b) {
                    Ok(x) => x,
                    Err(e) => return fail(Stage::CodecVerifierShare(round, i), e),
                }
            } else {
                shares[i].clone()
            };
            st2.push(st);
            sh2.push(sh);
        }
        if let Some(h) = &opts.shares_hook {
            let list = h(round, tr.verifier_shares[round].clone());
            sh2.clear();
            for (i, b) in list.iter().enumerate() {
                match V::VerifierShare::get_decoded_with_param(&states[0], b) {
                    Ok(x) => sh2.push(x),
                    Err(e) => return fail(Stage::CodecVerifierShare(round, i), e),
                }
            }
        }
        tr.verifier_messages.push(vec![]);
        let mut next_states = vec![];
        let mut next_shares = vec![];
        let mut outs = vec![];
        // when all aggregators share the same beliefs the combined message is computed once
        let uniform = envs.iter().all(|e| std::ptr::eq(e.vdaf, envs[0].vdaf) && e.late() == envs[0].late());
        let mut shared_msg: Option<V::VerifierMessage> = None;
        for (i, st) in st2.into_iter().enumerate() {
            let env = &envs[i];
            let msg = if let (true, Some(m)) = (uniform, &shared_msg) {
                m.clone()
            } else {
                match crate::engine::catch(|| env.vdaf.verifier_shares_to_message(env.late(), agg_param, sh2.clone())) {
                    Ok(Ok(m)) => m,
                    Ok(Err(e)) => return fail(Stage::SharesToMessage(round), e),
                    Err(m) => return fail(Stage::Panic(format!("verifier_shares_to_message[{round}]")), m),
                }
            };
            if uniform && shared_msg.is_none() {
                shared_msg = Some(msg.clone());
            }
            let mb = msg.get_encoded().map_err(|e| Failure { stage: Stage::CodecVerifierMessage(round, i), msg: e.to_string() })?;
            if let Some(l) = msg.encoded_len() {
                if l != mb.len() {
                    return fail(Stage::CodecVerifierMessage(round, i), format!("encoded_len()={} but {} bytes produced", l, mb.len()));
                }
            }
            let mb = tam("verifier_message", round, i, mb);
            if i == 0 {
                tr.verifier_messages[round] = mb.clone();
            }
            let m = if opts.wire || opts.tamper.is_some() {
                match V::VerifierMessage::get_decoded_with_param(&st, &mb) {
                    Ok(x) => x,
                    Err(e) => return fail(Stage::CodecVerifierMessage(round, i), e),
                }
            } else {
                msg.clone()
            };
            match crate::engine::catch(|| env.vdaf.verify_next(env.late(), st, m)) {
                Ok(Ok(VerifyTransition::Continue(s, sh))) => {
                    next_states.push(s);
                    next_shares.push(sh);
                }
                Ok(Ok(VerifyTransition::Finish(o))) => outs.push(o),
                Ok(Err(e)) => return fail(Stage::VerifyNext(round, i), e),
                Err(m) => return fail(Stage::Panic(format!("verify_next[{round}][{i}]")), m),
            }
        }
        if !outs.is_empty() {
            if outs.len() != n {
                return fail(Stage::Protocol("mixed".into()), "some aggregators finished while others continue");
            }
            let mut outs2 = vec![];
            for (i, o) in outs.into_iter().enumerate() {
                let o = if opts.wire {
                    through_wire(&o, &(envs[i].vdaf, agg_param), Stage::CodecOutputShare(i))?
                } else {
                    o
                };
                tr.output_shares.push(o.get_encoded().unwrap_or_default());
                outs2.push(o);
            }
            return Ok((outs2, tr));
        }
        states = next_states;
        shares = next_shares;
        round += 1;
        if round > 8 {
            return fail(Stage::Protocol("rounds".into()), "more than 8 rounds");
        }
    }
}
