//! Small-field exhaustive FLP sweeps shared by C05 and C02 (see c05.rs for the description).
use crate::engine::{catch, fnv, par, splitmix, Run};
use crate::kit::flpkit::{Spec, Visit};
use crate::kit::ints::{modpow, nth_vector, pow_u64, IntConv, KitField};
use prio::field::verif::FieldV17;
use prio::flp::Type;
use serde_json::json;
use std::sync::atomic::{AtomicU64, Ordering};
use std::sync::Mutex;

pub fn vf<F: KitField>(x: &[u128]) -> Vec<F>
where
    F::Integer: IntConv,
{
    x.iter().map(|v| F::fe(*v)).collect()
}

/// All tuples of F^len if there are at most `cap`, else alphabet^len if at most `cap`, else the
/// alphabet diagonal plus seeded tuples. Returns (tuples, exhaustive).
pub fn tuples(p: u64, len: usize, cap: u64, alphabet: &[u128], seed: u64) -> (Vec<Vec<u128>>, bool) {
    if let Some(n) = pow_u64(p, len) {
        if n <= cap {
            return ((0..n).map(|i| nth_vector(i, len, p)).collect(), true);
        }
    }
    let a = alphabet.len() as u64;
    if let Some(n) = pow_u64(a, len) {
        if n <= cap {
            return (
                (0..n).map(|i| nth_vector(i, len, a).iter().map(|j| alphabet[*j as usize]).collect()).collect(),
                false,
            );
        }
    }
    let mut out: Vec<Vec<u128>> = alphabet.iter().map(|v| vec![*v; len]).collect();
    let mut st = seed;
    while (out.len() as u64) < cap.min(64) {
        out.push((0..len).map(|_| (splitmix(&mut st) % p) as u128).collect());
    }
    (out, false)
}

pub struct SmallCfg {
    pub cap_inputs: u64,
    pub cap_joint: u64,
    pub cap_prove: u64,
    pub cap_query: u64,
}

pub struct SmallExh<'a> {
    pub run: &'a Run,
    pub cfg: SmallCfg,
    pub thin_r: bool,
}

impl<'a, F: KitField> Visit<F> for SmallExh<'a>
where
    F::Integer: IntConv,
{
    type Out = ();
    fn visit<T: Type<Field = F> + Send + Sync + 'static>(self, spec: &Spec, t: T) {
        let run = self.run;
        let p = F::p();
        let pu = p as u64;
        let name = format!("{}@GF({})", spec.name(), p);
        let n = t.input_len();
        // a clone denotes the same circuit: the verifier side below runs on a clone of the prover's instance
        let tv = t.clone();
        let lens = |x: &T| [x.input_len(), x.proof_len(), x.verifier_len(), x.joint_rand_len(), x.prove_rand_len(), x.query_rand_len(), x.output_len()];
        if tv != t || lens(&tv) != lens(&t) {
            run.fail(&format!("{name}/clone"), &format!("{name}: a clone of the circuit differs from the original (lengths {:?} vs {:?})", lens(&tv), lens(&t)), json!({"instance": name}));
            return;
        }
        // declared lengths against the spec formulas
        let pl = spec.wire_poly_len();
        let arity = if spec.chunk() > 0 { 2 * spec.chunk() } else if matches!(spec, Spec::Count) { 2 } else { 1 };
        let want_proof_len = arity + spec.gadget_degree() * (pl - 1) + 1;
        let want_qr = 1 + if spec.outputs() > 1 { spec.outputs() } else { 0 };
        let multi = spec.num_gadgets() > 1;
        let gadget_pls: Vec<usize> = t.gadget().iter().map(|g| (1 + g.calls()).next_power_of_two()).collect();
        if !multi && (n != spec.input_len() || t.proof_len() != want_proof_len || t.verifier_len() != arity + 2 || t.prove_rand_len() != arity || t.query_rand_len() != want_qr || t.eval_output_len() != spec.outputs()) {
            run.fail(&format!("small/{name}/declared_len"), &format!("{name}: declared lengths differ from the specification (input {} proof {} verifier {} prove_rand {} query_rand {})", n, t.proof_len(), t.verifier_len(), t.prove_rand_len(), t.query_rand_len()), json!({"spec": spec.name()}));
            return;
        }
        let alphabet: Vec<u128> = vec![0, 1, p - 1, 2, p / 2, 3];
        let n_inputs = pow_u64(pu, n).filter(|x| *x <= self.cfg.cap_inputs);
        let inputs_exh = n_inputs.is_some();
        let (inputs, _) = tuples(pu, n, self.cfg.cap_inputs, &alphabet[..4], run.seed);
        let (joints, j_exh) = tuples(pu, t.joint_rand_len(), self.cfg.cap_joint, &alphabet, run.seed ^ 1);
        let (proves, p_exh) = tuples(pu, t.prove_rand_len(), self.cfg.cap_prove, &alphabet[..3], run.seed ^ 2);
        // query randomness = (compression part, gadget part): gadget part always exhaustive
        let nq_val = t.query_rand_len() - 1;
        let (qvals, q_exh) = tuples(pu, nq_val, self.cfg.cap_query, &alphabet, run.seed ^ 3);
        let bound = spec.soundness_bound(p);
        let evals = AtomicU64::new(0);
        let refused_n = AtomicU64::new(0);
        let acc_invalid = AtomicU64::new(0);
        let n_invalid_inputs = AtomicU64::new(0);
        let worst: Mutex<(f64, Vec<u128>)> = Mutex::new((0.0, vec![]));
        par::for_each(inputs.len() as u64, |ii| {
            let x = &inputs[ii as usize];
            let valid = spec.is_valid(x, p);
            let xf: Vec<F> = vf(x);
            let (mut total, mut accepted) = (0u64, 0u64);
            let adm_first = (0..p).find(|r| modpow(*r, pl as u128, p) != 1).unwrap();
            let adm_last = (0..p).rev().find(|r| modpow(*r, pl as u128, p) != 1).unwrap();
            let mut first_jr_pr = 0usize;
            for jr in &joints {
                let jrf: Vec<F> = vf(jr);
                for pr in &proves {
                    let prf: Vec<F> = vf(pr);
                    first_jr_pr += 1;
                    let proof = match catch(|| t.prove(&xf, &prf, &jrf)) {
                        Ok(Ok(pf)) => pf,
                        Ok(Err(e)) => {
                            run.fail(&format!("small/{name}/prove_err"), &format!("{name}: prove failed on well-formed arguments: {e}"), json!({"spec": spec.name(), "p": p.to_string(), "x": x, "jr": jr, "pr": pr}));
                            return;
                        }
                        Err(m) => {
                            run.fail(&format!("small/{name}/prove_panic"), &format!("{name}: prove panicked: {m}"), json!({"spec": spec.name(), "p": p.to_string(), "x": x, "jr": jr, "pr": pr}));
                            return;
                        }
                    };
                    if proof.len() != t.proof_len() {
                        run.fail(&format!("small/{name}/proof_len"), &format!("{name}: proof has {} elements, declared {}", proof.len(), t.proof_len()), json!({"spec": spec.name()}));
                        return;
                    }
                    // the proof's first `arity` elements are the wire seeds = prove randomness
                    for (qi, qv) in qvals.iter().enumerate() {
                        for r in 0..p {
                            // quick tier: every gadget point for the first compression vector of each
                            // (x, jr, pr); afterwards only the first and last admissible points (the
                            // decision of an honest proof does not depend on the gadget point)
                            if self.thin_r && qi + first_jr_pr > 1 && r != adm_first && r != adm_last {
                                continue;
                            }
                            let mut qr = qv.clone();
                            qr.push(r);
                            let qrf: Vec<F> = vf(&qr);
                            // refusal is specified per gadget point (the last num_gadgets entries)
                            let ng = gadget_pls.len();
                            let expect_refused = (0..ng).any(|g| modpow(qr[qr.len() - ng + g], gadget_pls[g] as u128, p) == 1);
                            let res = catch(|| tv.query(&xf, &proof, &qrf, &jrf, 1));
                            evals.fetch_add(1, Ordering::Relaxed);
                            let case = || json!({"spec": spec.name(), "p": p.to_string(), "x": x, "jr": jr, "pr": pr, "qr": qr});
                            let verifier = match res {
                                Err(m) => {
                                    run.fail(&format!("small/{name}/query_panic"), &format!("{name}: query panicked: {m}"), case());
                                    return;
                                }
                                Ok(Err(_)) if expect_refused => {
                                    refused_n.fetch_add(1, Ordering::Relaxed);
                                    continue;
                                }
                                Ok(Err(e)) => {
                                    run.fail(&format!("small/{name}/query_err"), &format!("{name}: query refused admissible randomness r={r}: {e}"), case());
                                    return;
                                }
                                Ok(Ok(_)) if expect_refused => {
                                    run.fail(&format!("small/{name}/root_not_refused"), &format!("{name}: query randomness r={r} is a {pl}-th root of unity (would reveal a wire value) but was not refused"), case());
                                    return;
                                }
                                Ok(Ok(v)) => v,
                            };
                            if verifier.len() != t.verifier_len() {
                                run.fail(&format!("small/{name}/verifier_len"), &format!("{name}: verifier has {} elements, declared {}", verifier.len(), t.verifier_len()), case());
                                return;
                            }
                            let d = match catch(|| tv.decide(&verifier)) {
                                Ok(Ok(d)) => d,
                                other => {
                                    run.fail(&format!("small/{name}/decide_err"), &format!("{name}: decide failed: {:?}", other.map(|r| r.map_err(|e| e.to_string()))), case());
                                    return;
                                }
                            };
                            // uniform weights for the counting rule: in thin mode count only the two
                            // canonical gadget points, which are queried for every (jr, pr, qv)
                            if !self.thin_r || r == adm_first || r == adm_last {
                                total += 1;
                                if d {
                                    accepted += 1;
                                }
                            }
                            if valid && !d {
                                run.fail(&format!("small/{name}/completeness"), &format!("{name}: honest proof for VALID input {:?} rejected (jr={:?} pr={:?} qr={:?})", x, jr, pr, qr), case());
                                return;
                            }
                        }
                    }
                }
            }
            if !valid {
                n_invalid_inputs.fetch_add(1, Ordering::Relaxed);
                acc_invalid.fetch_add(accepted, Ordering::Relaxed);
                let frac = accepted as f64 / total.max(1) as f64;
                {
                    let mut w = worst.lock().unwrap();
                    if frac > w.0 {
                        *w = (frac, x.clone());
                    }
                }
                // counting rule: only meaningful when the randomness that matters was enumerated
                // exhaustively (else a structured alphabet could legitimately over-represent roots)
                if j_exh && q_exh && frac > bound + 1e-9 {
                    run.fail(&format!("small/{name}/soundness"), &format!("{name}: honest proof for INVALID input {:?} accepted for {accepted} of {total} randomness values ({:.3} > soundness bound {:.3})", x, frac, bound), json!({"spec": spec.name(), "p": p.to_string(), "x": x, "accepted": accepted, "total": total}));
                }
            }
        });
        run.count("evaluations", evals.load(Ordering::Relaxed));
        run.count("small_refusals", refused_n.load(Ordering::Relaxed));
        run.count("small_invalid_inputs", n_invalid_inputs.load(Ordering::Relaxed));
        run.count("small_invalid_accepts_within_bound", acc_invalid.load(Ordering::Relaxed));
        run.distinct_many(inputs.iter().map(|x| fnv(format!("{name}/{:?}", x).as_bytes())));
        let w = worst.lock().unwrap();
        run.sample(json!({"instance": name, "inputs": inputs.len(), "inputs_exhaustive": inputs_exh, "joint": joints.len(), "joint_exhaustive": j_exh, "prove": proves.len(), "prove_exhaustive": p_exh, "query_compress": qvals.len(), "query_exhaustive": q_exh, "worst_invalid_accept_fraction": w.0, "worst_input": w.1, "bound": bound}));
    }
}

// ---------------------------------------------------------------------------------------------
/// Adversarial prover for Count over GF(17): every proof (or every gadget-polynomial part).
pub fn adversarial_count(run: &Run, full: bool) {
    use prio::flp::types::Count;
    use prio::flp::Flp;
    type F = FieldV17;
    let t = Count::<F>::new();
    let p = 17u64;
    let nproofs = if full { 17u64.pow(5) } else { 17u64.pow(3) };
    let max_acc = AtomicU64::new(0);
    let evals = AtomicU64::new(0);
    par::for_each_chunked(nproofs, 64, |i| {
        let proof_v: Vec<u128> = if full {
            nth_vector(i, 5, p)
        } else {
            // honest seeds (3, 5), arbitrary gadget polynomial
            let mut v = vec![3, 5];
            v.extend(nth_vector(i, 3, p));
            v
        };
        let proof: Vec<F> = vf(&proof_v);
        for x in 0..17u128 {
            let valid = x <= 1;
            let mut accepted = 0u64;
            let mut total = 0u64;
            for r in 0..17u128 {
                if r * r % 17 == 1 {
                    continue; // refused (P = 2)
                }
                let v = t.query(&[F::fe(x)], &proof, &[F::fe(r)], &[], 1).unwrap();
                total += 1;
                if t.decide(&v).unwrap() {
                    accepted += 1;
                }
            }
            evals.fetch_add(total, Ordering::Relaxed);
            if !valid {
                max_acc.fetch_max(accepted, Ordering::Relaxed);
                // FLP soundness: gadget polynomial p of degree <= 2 (3 points) vs G(f(.)) of degree 2:
                // they agree on <= 2 of the admissible points unless identical, and when identical the
                // circuit output x^2-x != 0 is exposed -> at most d(P-1) = 2 accepting points.
                if accepted > 2 {
                    run.fail("adv/Count@GF(17)/soundness", &format!("Count@GF(17): invalid input {x} with adversarial proof {:?} accepted at {accepted} of {total} admissible query points (> d(P-1)=2)", proof_v), json!({"proof": proof_v, "x": x, "accepted": accepted}));
                }
            }
        }
    });
    run.count("evaluations", evals.load(Ordering::Relaxed));
    run.count("adversarial_proofs", nproofs);
    run.note("adversarial_max_accepting_points_for_invalid_input", json!(max_acc.load(Ordering::Relaxed)));
    run.distinct_many((0..nproofs.min(100_000)).map(|i| fnv(format!("advproof/{i}").as_bytes())));
    run.sample(json!({"adversarial": "Count@GF(17)", "proofs": nproofs, "inputs": 17, "query_points": 15, "max_accepting_points_invalid": max_acc.load(Ordering::Relaxed)}));
}


/// Adversarial prover restricted to one gadget at a time: honest wire seeds, but EVERY assignment of
/// the gadget-polynomial part of one gadget's sub-proof (small fields), for every gadget of the
/// circuit. For an invalid input the forged polynomial either differs from G∘f — then it agrees
/// with it on at most d(P-1) query points — or equals it — then the non-zero circuit output is
/// exposed. So for at least one of two independent compression vectors at most d(P-1) of the
/// admissible points of the forged gadget may accept.
pub struct ForgedGadget<'a> {
    pub run: &'a Run,
    pub all_inputs: bool,
}

impl<'a, F: KitField> Visit<F> for ForgedGadget<'a>
where
    F::Integer: IntConv,
{
    type Out = ();
    fn visit<T: Type<Field = F> + Send + Sync + 'static>(self, spec: &Spec, t: T) {
        let run = self.run;
        let p = F::p();
        let pu = p as u64;
        let name = format!("{}@GF({})", spec.name(), p);
        let n = t.input_len();
        let gadgets = t.gadget();
        // layout of the proof: per gadget (offset of the gadget polynomial, its length, P, degree)
        let mut layout = vec![];
        let mut off = 0usize;
        for g in &gadgets {
            let pl = (1 + g.calls()).next_power_of_two();
            let gl = g.degree() * (pl - 1) + 1;
            layout.push((off + g.arity(), gl, pl, g.degree()));
            off += g.arity() + gl;
        }
        assert_eq!(off, t.proof_len(), "{name}: proof layout");
        let inputs: Vec<Vec<u128>> = if self.all_inputs {
            (0..pow_u64(pu, n).unwrap()).map(|i| nth_vector(i, n, pu)).collect()
        } else {
            let a = [0u128, 1, 2, p - 1];
            (0..pow_u64(4, n).unwrap()).map(|i| nth_vector(i, n, 4).iter().map(|j| a[*j as usize]).collect()).collect()
        };
        let ng = gadgets.len();
        let nout = t.eval_output_len();
        let qvecs: Vec<Vec<u128>> = if nout > 1 { vec![(0..nout).map(|i| (i as u128 * 2 + 1) % p).collect(), (0..nout).map(|i| ((i as u128 + 1) * (i as u128 + 1) + 1) % p).collect()] } else { vec![vec![]] };
        let jr: Vec<F> = vf(&vec![3 % p; t.joint_rand_len()]);
        let pr: Vec<F> = vf(&(0..t.prove_rand_len()).map(|i| (i as u128 * 5 + 2) % p).collect::<Vec<_>>());
        let evals = AtomicU64::new(0);
        let worst = AtomicU64::new(0);
        let items: Vec<(usize, usize)> = (0..inputs.len()).flat_map(|i| (0..ng).map(move |g| (i, g))).collect();
        par::for_each(items.len() as u64, |ix| {
            let (ii, gi) = items[ix as usize];
            let x = &inputs[ii];
            if spec.is_valid(x, p) {
                return;
            }
            let xf: Vec<F> = vf(x);
            let honest = match t.prove(&xf, &pr, &jr) {
                Ok(h) => h,
                Err(_) => return,
            };
            let (goff, glen, _pl, deg) = layout[gi];
            let total = pow_u64(pu, glen).filter(|v| *v <= 200_000);
            let Some(total) = total else { return };
            let bound = (deg * (layout[gi].2 - 1)) as u64;
            // admissible points per gadget
            let adm: Vec<Vec<u128>> = layout.iter().map(|(_, _, pl, _)| (0..p).filter(|r| modpow(*r, *pl as u128, p) != 1).collect()).collect();
            for v in 0..total {
                let seg = nth_vector(v, glen, pu);
                let mut proof = honest.clone();
                for (k, e) in seg.iter().enumerate() {
                    proof[goff + k] = F::fe(*e);
                }
                let mut over = 0;
                let mut detail = vec![];
                for q in &qvecs {
                    let mut accepted = 0u64;
                    for r in &adm[gi] {
                        let mut qr = q.clone();
                        for (g2, a2) in adm.iter().enumerate() {
                            qr.push(if g2 == gi { *r } else { a2[a2.len() / 2] });
                        }
                        let qrf: Vec<F> = vf(&qr);
                        evals.fetch_add(1, Ordering::Relaxed);
                        if let Ok(ver) = t.query(&xf, &proof, &qrf, &jr, 1) {
                            if t.decide(&ver).unwrap_or(false) {
                                accepted += 1;
                            }
                        }
                    }
                    worst.fetch_max(accepted, Ordering::Relaxed);
                    detail.push(accepted);
                    if accepted > bound {
                        over += 1;
                    }
                }
                if over == qvecs.len() {
                    run.fail(&format!("forged/{name}/gadget{gi}"), &format!("{name}: INVALID input {:?} with gadget {gi}'s polynomial forged to {:?} (honest wire seeds) is accepted at {:?} of {} admissible points of that gadget for both compression vectors (bound d(P-1) = {bound})", x, seg, detail, adm[gi].len()), json!({"spec": spec.name(), "p": p.to_string(), "x": x, "gadget": gi, "forged_polynomial": seg}));
                    return;
                }
            }
            run.distinct(fnv(format!("forged/{name}/{:?}/{gi}", x).as_bytes()));
        });
        run.count("evaluations", evals.load(Ordering::Relaxed));
        run.count("forged_gadget_polynomial_queries", evals.load(Ordering::Relaxed));
        run.sample(json!({"forged_gadget": name, "gadgets": ng, "inputs": inputs.len(), "max_accepting_points_seen": worst.load(Ordering::Relaxed)}));
    }
}
