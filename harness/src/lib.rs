//! pvh — model-checking harness for libprio-rs (see /verif/DESIGN.md).
pub mod engine;
pub mod kit;
